/* strings as identities for the exact (SAT) builds: see pointwise.h for the same model */
#ifndef VERIF_MODELS_SIDSTR_H
#define VERIF_MODELS_SIDSTR_H
typedef uint64_t sid;
static inline sid sid_new(void) { return 0; }
static inline bool sid_empty(const sid *s) { return *s == 0; }
static inline bool sid_eq(sid a, sid b) { return a == b; }
static inline bool sid_keyeq(sid a, sid b) { return a == b; }
#endif
