/* strings as identities for the exact (SAT) builds: see pointwise.h for the same model */
#ifndef VERIF_MODELS_SIDSTR_H
#define VERIF_MODELS_SIDSTR_H
typedef uint64_t sid;
static inline sid sid_new(void) { return 0; }
static inline bool sid_empty(const sid *s) { return *s == 0; }
static inline bool sid_eq(sid a, sid b) { return a == b; }
static inline bool sid_keyeq(sid a, sid b) { return a == b; }
/* concatenation: empty operands are neutral; otherwise some non-empty string (which one is unconstrained:
 * an over-approximation that keeps exactly what identity-strings can say - emptiness)          */
#ifdef CBMC
uint64_t nondet_sid_concat(void);
static inline sid sid_concat(sid a, sid b)
{
    if (a == 0)
        return b;
    if (b == 0)
        return a;
    sid r = nondet_sid_concat();
    __CPROVER_assume(r != 0);
    return r;
}
#else
static inline sid sid_concat(sid a, sid b) { return a == 0 ? b : (b == 0 ? a : a * 1000003u + b); }
#endif
#endif
