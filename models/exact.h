/* EXACT bounded models of the std:: value types the lowered kernels use.
 *
 * Every operation behaves exactly like its libstdc++ counterpart as long as the content fits
 * the fixed capacity; exceeding a capacity is MODEL_BOUND (an assumption of the bounded check,
 * reported in the evidence), a C++ `throw` is MODEL_ASSERT.  Differentially tested against the
 * real classes by models/conformance_exact.cpp on every run.                                 */
#ifndef VERIF_MODELS_EXACT_H
#define VERIF_MODELS_EXACT_H
#include "base.h"

#ifndef VSTR_CAP
#define VSTR_CAP 12
#endif
#ifndef VVEC_CAP
#define VVEC_CAP 12
#endif
#ifndef VSET_CAP
#define VSET_CAP 12
#endif
#ifndef VMAP_CAP
#define VMAP_CAP 32
#endif

/* ---------------------------------------------------------------- std::string ---------- */
typedef struct
{
    size_t n;
    char d[VSTR_CAP + 1];
} vstr;
typedef char vstr_elem_t;
#define vstr_elem_eq(a, b) ((a) == (b))
#define VSTR_NPOS ((size_t)-1)
#define VSTR_INIT(s) {sizeof(s) - 1, s}
#define vstr_lit(s) ((vstr)VSTR_INIT(s))

static inline vstr vstr_new(void)
{
    vstr r;
    r.n = 0;
    return r;
}
static inline bool vstr_empty(const vstr *s) { return s->n == 0; }
static inline size_t vstr_size(const vstr *s) { return s->n; }
static inline size_t vstr_length(const vstr *s) { return s->n; }
static inline char *vstr_data(vstr *s) { return s->d; }
static inline char *vstr_at(vstr *s, size_t i)
{
    MODEL_ASSERT(i < s->n, "std::string::at: index out of range (std::out_of_range)");
    return &s->d[i];
}
static inline char *vstr_index(vstr *s, size_t i)
{
    MODEL_ASSERT(i <= s->n, "std::string::operator[]: index past the end (undefined behaviour)");
    return &s->d[i];
}
static inline char *vstr_front(vstr *s)
{
    MODEL_ASSERT(s->n > 0, "std::string::front on empty string (undefined behaviour)");
    return &s->d[0];
}
static inline char *vstr_back(vstr *s)
{
    MODEL_ASSERT(s->n > 0, "std::string::back on empty string (undefined behaviour)");
    return &s->d[s->n - 1];
}
static inline bool vstr_eq(vstr a, vstr b)
{
    if (a.n != b.n)
        return 0;
    for (size_t i = 0; i < a.n; ++i)
        if (a.d[i] != b.d[i])
            return 0;
    return 1;
}
static inline void vstr_push_back(vstr *s, char c)
{
    MODEL_BOUND(s->n < VSTR_CAP);
    s->d[s->n++] = c;
}
static inline void vstr_clear(vstr *s) { s->n = 0; }
/* find(sub, pos): first k >= pos with s[k..k+|sub|) == sub; npos if none */
static inline size_t vstr_find_s_sz(const vstr *s, vstr sub, size_t pos)
{
    if (sub.n > s->n)
        return VSTR_NPOS;
    for (size_t k = pos; k <= s->n - sub.n; ++k) {
        bool m = 1;
        for (size_t j = 0; j < sub.n; ++j)
            if (s->d[k + j] != sub.d[j]) {
                m = 0;
                break;
            }
        if (m)
            return k;
    }
    return VSTR_NPOS;
}
static inline size_t vstr_find_s(const vstr *s, vstr sub) { return vstr_find_s_sz(s, sub, 0); }
static inline size_t vstr_find_c_sz(const vstr *s, char c, size_t pos)
{
    for (size_t k = pos; k < s->n; ++k)
        if (s->d[k] == c)
            return k;
    return VSTR_NPOS;
}
static inline size_t vstr_find_c(const vstr *s, char c) { return vstr_find_c_sz(s, c, 0); }
static inline bool __vstr_has(vstr set, char c)
{
    for (size_t j = 0; j < set.n; ++j)
        if (set.d[j] == c)
            return 1;
    return 0;
}
static inline size_t vstr_find_first_not_of_s(const vstr *s, vstr set)
{
    for (size_t k = 0; k < s->n; ++k)
        if (!__vstr_has(set, s->d[k]))
            return k;
    return VSTR_NPOS;
}
static inline size_t vstr_find_first_of_s(const vstr *s, vstr set)
{
    for (size_t k = 0; k < s->n; ++k)
        if (__vstr_has(set, s->d[k]))
            return k;
    return VSTR_NPOS;
}
/* erase(pos, len): throws out_of_range if pos > size */
static inline void vstr_erase_sz_sz(vstr *s, size_t pos, size_t len)
{
    MODEL_ASSERT(pos <= s->n, "std::string::erase: pos > size() (std::out_of_range)");
    size_t rem = s->n - pos;
    if (len > rem)
        len = rem;
    for (size_t k = pos; k + len < s->n; ++k)
        s->d[k] = s->d[k + len];
    s->n -= len;
}
static inline void vstr_erase_sz(vstr *s, size_t pos) { vstr_erase_sz_sz(s, pos, VSTR_NPOS); }
/* substr(pos, len): throws out_of_range if pos > size */
static inline vstr vstr_substr_sz_sz(const vstr *s, size_t pos, size_t len)
{
    vstr r;
    MODEL_ASSERT(pos <= s->n, "std::string::substr: pos > size() (std::out_of_range)");
    size_t rem = s->n - pos;
    if (len > rem)
        len = rem;
    r.n = len;
    for (size_t k = 0; k < len; ++k)
        r.d[k] = s->d[pos + k];
    return r;
}
static inline vstr vstr_substr_sz(const vstr *s, size_t pos) { return vstr_substr_sz_sz(s, pos, VSTR_NPOS); }
/* replace(pos, len, str) */
static inline void vstr_replace_sz_sz_s(vstr *s, size_t pos, size_t len, vstr str)
{
    MODEL_ASSERT(pos <= s->n, "std::string::replace: pos > size() (std::out_of_range)");
    size_t rem = s->n - pos;
    if (len > rem)
        len = rem;
    vstr r;
    MODEL_BOUND(s->n - len + str.n <= VSTR_CAP);
    r.n = 0;
    for (size_t k = 0; k < pos; ++k)
        r.d[r.n++] = s->d[k];
    for (size_t k = 0; k < str.n; ++k)
        r.d[r.n++] = str.d[k];
    for (size_t k = pos + len; k < s->n; ++k)
        r.d[r.n++] = s->d[k];
    *s = r;
}
static inline vstr vstr_concat(vstr a, vstr b)
{
    MODEL_BOUND(a.n + b.n <= VSTR_CAP);
    for (size_t k = 0; k < b.n; ++k)
        a.d[a.n + k] = b.d[k];
    a.n += b.n;
    return a;
}
static inline void vstr_append_s(vstr *a, vstr b) { *a = vstr_concat(*a, b); }

/* key / element equality, by type name */
static inline bool vstr_keyeq(vstr a, vstr b) { return vstr_eq(a, b); }
static inline bool int_keyeq(int a, int b) { return a == b; }
static inline bool size_t_keyeq(size_t a, size_t b) { return a == b; }
static inline bool ref_keyeq(ref a, ref b) { return a == b; }
static inline bool char_keyeq(char a, char b) { return a == b; }
static inline bool bool_keyeq(bool a, bool b) { return a == b; }
static inline bool double_keyeq(double a, double b) { return a == b; }

/* ---------------------------------------------------------------- iterators ------------- */
/* (container pointer, position).  *it asserts position < size (dereferencing end() is UB). */
/* v.at(i) / v[i] as lvalue expressions (the assertion stands for std::out_of_range / UB) */
#define VEC_AT(T, v, i) ((v)->d[vec_checked_index((i), (v)->n, 1)])
#define VEC_INDEX(T, v, i) ((v)->d[vec_checked_index((i), (v)->n, 0)])
static inline size_t vec_checked_index(size_t i, size_t n, bool at)
{
    if (at)
        MODEL_ASSERT(i < n, "std::vector::at: index out of range (std::out_of_range)");
    else
        MODEL_ASSERT(i < n, "std::vector::operator[]: index out of range (undefined behaviour)");
    return i;
}

/* m.at(k) as an lvalue expression (throws std::out_of_range when the key is absent) */
#define VMAP_AT(T, m, k) ((m)->d[vmap_checked_pos(T##_find_pos((m), (k)), (m)->n)].second)
static inline size_t vmap_checked_pos(size_t i, size_t n)
{
    MODEL_ASSERT(i < n, "std::map::at: key not present (std::out_of_range)");
    return i;
}
/* *it as an lvalue expression; dereferencing end() is undefined behaviour */
#define VIT_DEREF(it) ((it).v->d[vit_checked_index((it).i, (it).v->n)])
static inline size_t vit_checked_index(size_t i, size_t n)
{
    MODEL_ASSERT(i < n, "iterator dereferenced at or past end()");
    return i;
}

#define VIT_DECL(NAME, CONT)                                                                  \
    typedef struct                                                                            \
    {                                                                                         \
        CONT *v;                                                                              \
        size_t i;                                                                             \
    } NAME;                                                                                   \
    static inline CONT##_elem_t *NAME##_ptr(NAME it)                                          \
    {                                                                                         \
        MODEL_ASSERT(it.i < CONT##_size(it.v), "iterator dereferenced at or past end()");     \
        return &CONT##_data(it.v)[it.i];                                                      \
    }                                                                                         \
    static inline CONT##_elem_t NAME##_deref(NAME it) { return *NAME##_ptr(it); }            \
    static inline NAME NAME##_add(NAME it, ptrdiff_t k)                                       \
    {                                                                                         \
        it.i = (size_t)((ptrdiff_t)it.i + k);                                                 \
        return it;                                                                            \
    }                                                                                         \
    static inline NAME NAME##_find(NAME first, NAME last, CONT##_elem_t x)                    \
    {                                                                                         \
        for (; first.i != last.i; ++first.i)                                                  \
            if (CONT##_elem_eq(first.v->d[first.i], x))                                       \
                return first;                                                                 \
        return last;                                                                          \
    }                                                                                         \
    static inline NAME CONT##_begin(const CONT *c) { return (NAME){(CONT *)c, 0}; }           \
    static inline NAME CONT##_end(const CONT *c) { return (NAME){(CONT *)c, CONT##_size(c)}; } \
    static inline NAME CONT##_cbegin(const CONT *c) { return (NAME){(CONT *)c, 0}; }          \
    static inline NAME CONT##_cend(const CONT *c) { return (NAME){(CONT *)c, CONT##_size(c)}; }

/* std::iota over a vector of integers (instantiated only where the lowered code uses it) */
#define IOTA_DECL(IT)                                                                         \
    static inline void IT##_iota(IT first, IT last, size_t v0)                                \
    {                                                                                         \
        for (; first.i != last.i; ++first.i)                                                  \
            first.v->d[first.i] = v0++;                                                       \
    }
/* std::reverse(first, last) over a vector */
#define REVERSE_DECL(IT)                                                                      \
    static inline void IT##_reverse(IT first, IT last)                                        \
    {                                                                                         \
        while (first.i != last.i && first.i != --last.i) {                                    \
            __typeof__(first.v->d[0]) t = first.v->d[first.i];                                \
            first.v->d[first.i] = first.v->d[last.i];                                         \
            first.v->d[last.i] = t;                                                           \
            ++first.i;                                                                        \
        }                                                                                     \
    }
/* std::copy(first, last, std::back_inserter(dst)) between vectors of the same element type */
#define COPY_BACK_DECL(IT, DST)                                                               \
    static inline void IT##_copy_back_##DST(IT first, IT last, DST *dst)                      \
    {                                                                                         \
        for (; first.i != last.i; ++first.i)                                                  \
            DST##_push_back(dst, VIT_DEREF(first));                                           \
    }
#define VSTR_IT_OPS(NAME, IT)
#define VMAP_IT_OPS(NAME, IT)                                                                 \
    static inline IT NAME##_erase_1(NAME *m, IT it)                                           \
    {                                                                                         \
        MODEL_ASSERT(it.i < m->n, "std::map::erase: iterator not dereferenceable (undefined behaviour)"); \
        for (size_t k = it.i; k + 1 < m->n; ++k)                                              \
            m->d[k] = m->d[k + 1];                                                            \
        m->n--;                                                                               \
        return it;                                                                            \
    }                                                                                         \
    static inline IT NAME##_find(const NAME *m, NAME##_key_t k) { return (IT){(NAME *)m, NAME##_find_pos(m, k)}; }

/* ---------------------------------------------------------------- std::vector<T> -------- */
#define VVEC_DECL(NAME, T)                                                                    \
    typedef struct                                                                            \
    {                                                                                         \
        size_t n;                                                                             \
        T d[VVEC_CAP];                                                                        \
    } NAME;                                                                                   \
    typedef T NAME##_elem_t;                                                                  \
    static inline bool NAME##_elem_eq(T a, T b) { return T##_keyeq(a, b); }                   \
    static inline bool NAME##_keyeq(NAME a, NAME b)                                           \
    {                                                                                         \
        if (a.n != b.n)                                                                       \
            return 0;                                                                         \
        for (size_t k = 0; k < VVEC_CAP; ++k)                                                 \
            if (k < a.n && !T##_keyeq(a.d[k], b.d[k]))                                        \
                return 0;                                                                     \
        return 1;                                                                             \
    }                                                                                         \
    static inline NAME NAME##_new(void)                                                       \
    {                                                                                         \
        NAME r;                                                                               \
        r.n = 0;                                                                              \
        return r;                                                                             \
    }                                                                                         \
    static inline NAME NAME##_sized(size_t n)                                                 \
    {                                                                                         \
        NAME r;                                                                               \
        MODEL_BOUND(n <= VVEC_CAP);                                                           \
        r.n = n;                                                                              \
        memset(r.d, 0, sizeof(r.d)); /* value-initialised elements */                         \
        return r;                                                                             \
    }                                                                                         \
    static inline size_t NAME##_size(const NAME *v) { return v->n; }                         \
    static inline bool NAME##_empty(const NAME *v) { return v->n == 0; }                     \
    static inline T *NAME##_data(NAME *v) { return v->d; }                                   \
    static inline T *NAME##_at(NAME *v, size_t i)                                             \
    {                                                                                         \
        MODEL_ASSERT(i < v->n, "std::vector::at: index out of range (std::out_of_range)");    \
        return &v->d[i];                                                                      \
    }                                                                                         \
    static inline T *NAME##_index(NAME *v, size_t i)                                          \
    {                                                                                         \
        MODEL_ASSERT(i < v->n, "std::vector::operator[]: index out of range (undefined behaviour)"); \
        return &v->d[i];                                                                      \
    }                                                                                         \
    static inline T *NAME##_front(NAME *v) { return NAME##_index(v, 0); }                    \
    static inline T *NAME##_back(NAME *v) { return NAME##_index(v, v->n - 1); }              \
    static inline void NAME##_push_back(NAME *v, T x)                                         \
    {                                                                                         \
        MODEL_BOUND(v->n < VVEC_CAP);                                                         \
        v->d[v->n++] = x;                                                                     \
    }                                                                                         \
    static inline void NAME##_pop_back(NAME *v)                                               \
    {                                                                                         \
        MODEL_ASSERT(v->n > 0, "std::vector::pop_back on empty vector (undefined behaviour)"); \
        v->n--;                                                                               \
    }                                                                                         \
    static inline void NAME##_clear(NAME *v) { v->n = 0; }                                   \
    static inline void NAME##_reserve(NAME *v, size_t k) { (void)v; (void)k; }               \
    static inline void NAME##_erase_pos(NAME *v, size_t i)                                    \
    {                                                                                         \
        MODEL_ASSERT(i < v->n, "std::vector::erase: iterator not dereferenceable (undefined behaviour)"); \
        for (size_t k = i; k + 1 < v->n; ++k)                                                 \
            v->d[k] = v->d[k + 1];                                                            \
        v->n--;                                                                               \
    }                                                                                         \
    static inline void NAME##_insert_pos(NAME *v, size_t i, T x)                              \
    {                                                                                         \
        MODEL_ASSERT(i <= v->n, "std::vector::insert: iterator out of range (undefined behaviour)"); \
        MODEL_BOUND(v->n < VVEC_CAP);                                                         \
        for (size_t k = v->n; k > i; --k)                                                     \
            v->d[k] = v->d[k - 1];                                                            \
        v->d[i] = x;                                                                          \
        v->n++;                                                                               \
    }

/* iterator-taking members are defined once the iterator type exists */
#define VVEC_IT_OPS(NAME, IT)                                                                 \
    static inline IT NAME##_erase_2(NAME *v, IT first, IT last)                               \
    {                                                                                         \
        MODEL_ASSERT(first.i <= last.i && last.i <= v->n, "std::vector::erase(first, last): invalid range (undefined behaviour)"); \
        size_t gap = last.i - first.i;                                                        \
        for (size_t k = first.i; k + gap < v->n; ++k)                                         \
            v->d[k] = v->d[k + gap];                                                          \
        v->n -= gap;                                                                          \
        return first;                                                                         \
    }                                                                                         \
    COPY_BACK_DECL(IT, NAME)                                                                  \
    static inline IT NAME##_erase_1(NAME *v, IT it)                                           \
    {                                                                                         \
        NAME##_erase_pos(v, it.i);                                                            \
        return it;                                                                            \
    }                                                                                         \
    static inline IT NAME##_insert_2(NAME *v, IT it, NAME##_elem_t x)                         \
    {                                                                                         \
        NAME##_insert_pos(v, it.i, x);                                                        \
        return it;                                                                            \
    }

/* ---------------------------------------------------------------- std::pair ------------- */
#define VPAIR_DECL(NAME, A, B)                                                                \
    typedef struct                                                                            \
    {                                                                                         \
        A first;                                                                              \
        B second;                                                                             \
    } NAME;                                                                                   \
    static inline bool NAME##_keyeq(NAME a, NAME b) { return A##_keyeq(a.first, b.first) && B##_keyeq(a.second, b.second); } \
    static inline bool NAME##_eq(NAME a, NAME b) { return NAME##_keyeq(a, b); }

/* ---------------------------------------------------------------- std::set<T> (scalar T) */
#define VSET_DECL(NAME, T)                                                                    \
    typedef struct                                                                            \
    {                                                                                         \
        size_t n;                                                                             \
        T d[VSET_CAP];                                                                        \
    } NAME;                                                                                   \
    typedef T NAME##_elem_t;                                                                  \
    static inline bool NAME##_elem_eq(T a, T b) { return T##_keyeq(a, b); }                   \
    static inline size_t NAME##_size(const NAME *v) { return v->n; }                         \
    static inline T *NAME##_data(NAME *v) { return v->d; }                                   \
    static inline size_t NAME##_find_pos(const NAME *v, T x)                                  \
    {                                                                                         \
        for (size_t k = 0; k < v->n; ++k)                                                     \
            if (v->d[k] == x)                                                                 \
                return k;                                                                     \
        return v->n;                                                                          \
    }                                                                                         \
    static inline size_t NAME##_count(const NAME *v, T x) { return NAME##_find_pos(v, x) < v->n ? 1 : 0; }

#define VSET_IT_OPS(NAME, IT)                                                                 \
    static inline IT NAME##_find(const NAME *v, NAME##_elem_t x) { return (IT){(NAME *)v, NAME##_find_pos(v, x)}; }

/* ---------------------------------------------------------------- std::map<K,V> --------- */
/* association list; KEQ(a,b) compares keys.  Iteration order is not modelled (kernels that
 * iterate a map are outside the subset).                                                    */
#define VMAP_DECL(NAME, K, V, PAIR)                                                           \
    typedef struct                                                                            \
    {                                                                                         \
        size_t n;                                                                             \
        PAIR d[VMAP_CAP];                                                                     \
    } NAME;                                                                                   \
    typedef PAIR NAME##_elem_t;                                                               \
    static inline bool NAME##_elem_eq(PAIR a, PAIR b) { return PAIR##_keyeq(a, b); }          \
    typedef K NAME##_key_t;                                                                   \
    static inline NAME NAME##_new(void)                                                       \
    {                                                                                         \
        NAME r;                                                                               \
        r.n = 0;                                                                              \
        return r;                                                                             \
    }                                                                                         \
    static inline size_t NAME##_size(const NAME *m) { return m->n; }                         \
    static inline PAIR *NAME##_data(NAME *m) { return m->d; }                                \
    static inline size_t NAME##_find_pos(const NAME *m, K k)                                  \
    {                                                                                         \
        for (size_t i = 0; i < m->n; ++i)                                                     \
            if (K##_keyeq(m->d[i].first, k))                                                  \
                return i;                                                                     \
        return m->n;                                                                          \
    }                                                                                         \
    static inline size_t NAME##_count(const NAME *m, K k) { return NAME##_find_pos(m, k) < m->n ? 1 : 0; } \
    static inline void NAME##_emplace(NAME *m, K k, V v)                                      \
    {                                                                                         \
        if (NAME##_find_pos(m, k) < m->n)                                                     \
            return; /* emplace does not overwrite */                                          \
        MODEL_BOUND(m->n < VMAP_CAP);                                                         \
        m->d[m->n].first = k;                                                                 \
        m->d[m->n].second = v;                                                                \
        m->n++;                                                                               \
    }                                                                                         \
    static inline V *NAME##_index(NAME *m, K k) /* operator[]: inserts a default value */     \
    {                                                                                         \
        size_t i = NAME##_find_pos(m, k);                                                     \
        if (i == m->n) {                                                                      \
            MODEL_BOUND(m->n < VMAP_CAP);                                                     \
            m->d[i].first = k;                                                                \
            memset(&m->d[i].second, 0, sizeof(V));                                            \
            m->n++;                                                                           \
        }                                                                                     \
        return &m->d[i].second;                                                               \
    }                                                                                         \
    static inline V *NAME##_at(const NAME *m, K k)                                            \
    {                                                                                         \
        size_t i = NAME##_find_pos(m, k);                                                     \
        MODEL_ASSERT(i < m->n, "std::map::at: key not present (std::out_of_range)");          \
        return (V *)&m->d[i].second;                                                          \
    }


/* ---------------------------------------------------------------- object heap ----------- */
/* data members of *Impl records: one global array per field, indexed by object id          */
#ifndef HEAP_N
#define HEAP_N 8
#endif
#define HEAP_FIELD(T, NAME) T NAME[HEAP_N];
/* typed havoc (a bool stays 0/1, which a byte-wise havoc does not guarantee) */
#define HAVOC_SCALAR_FIELD(F, T, A)                                                           \
    for (unsigned k = 0; k < HEAP_N; ++k) {                                                   \
        T nondet_field_##A(void);                                                             \
        F[k] = nondet_field_##A();                                                            \
    }
/* exact containers carry no pointers: arbitrary length and content */
#define HAVOC_CONTAINER_FIELD(F, T)                                                           \
    for (unsigned k = 0; k < HEAP_N; ++k) {                                                   \
        T nondet_##T(void);                                                                   \
        F[k] = nondet_##T(); /* typed havoc (byte-wise havoc of padded structs is imprecise) */ \
    }
/* address of an object (reinterpret_cast<uintptr_t>): arbitrary; the harness states what it
 * assumes about it (injective, aligned)                                                     */
extern uintptr_t __addr[HEAP_N];
#define ADDR_OF(p) (__addr[p])
/* weak_ptr::lock(): the referent, or null when it has been destroyed */
extern bool __alive[HEAP_N];
#define WEAK_LOCK(w) (((w) != 0 && __alive[w]) ? (w) : (ref)0)

#endif
