/* POINTWISE (unbounded) models of std::vector for the modular, loop-free proofs.
 *
 * A vector is (buffer pointer, length); a structural mutation (push_back, erase, insert)
 * allocates a FRESH buffer whose content is constrained only at the ghost indices G, G+1 and H
 * (H is a second arbitrary index) and is nondeterministic elsewhere; the old buffer stays
 * readable, so a contract can speak about `old(v.d)[G]`.  G and H are never assigned: whatever
 * is proved "at G" holds at every index.  No loops, no quantifiers.
 * Element assignment through at()/operator[]/*it writes in place.                            */
#ifndef VERIF_MODELS_POINTWISE_H
#define VERIF_MODELS_POINTWISE_H
#include "base.h"

#ifndef PW_CAP
#define PW_CAP 1048576 /* containers hold fewer than 2^20 elements (stated assumption) */
#endif

extern size_t G; /* ghost index */
extern size_t H; /* second ghost index */

#ifdef CBMC
void *malloc(size_t);
/* allocation failure is outside the lowered subset (DESIGN 2.1, drop 2) */
static inline void *pw_fresh(size_t sz)
{
    void *p = malloc(sz);
    __CPROVER_assume(p != 0);
    return p;
}
#define PW_FRESH(T) ((T *)pw_fresh(sizeof(T) * (size_t)PW_CAP))
#else
#include <stdlib.h>
#define PW_FRESH(T) ((T *)calloc(PW_CAP, sizeof(T)))
#endif

#ifdef PW_NO_H /* kernels whose invariants never relate two arbitrary indices */
#define PW_AT_H(STMT)
#else
#define PW_AT_H(STMT) g = H; STMT
#endif
#define PW_AT_GHOSTS(STMT)                                                                    \
    do {                                                                                      \
        size_t g;                                                                             \
        g = G; STMT;                                                                          \
        g = G + 1; STMT;                                                                      \
        PW_AT_H(STMT);                                                                        \
    } while (0)

#ifndef PW_COUNT_ONLY_VECTORS
#define VVEC_DECL(NAME, T)                                                                    \
    typedef struct                                                                            \
    {                                                                                         \
        T *d;                                                                                 \
        size_t n;                                                                             \
    } NAME;                                                                                   \
    typedef T NAME##_elem_t;                                                                  \
    static inline NAME NAME##_new(void)                                                       \
    {                                                                                         \
        NAME r;                                                                               \
        r.d = PW_FRESH(T);                                                                    \
        r.n = 0;                                                                              \
        return r;                                                                             \
    }                                                                                         \
    static inline size_t NAME##_size(const NAME *v) { return v->n; }                         \
    static inline bool NAME##_empty(const NAME *v) { return v->n == 0; }                     \
    static inline T *NAME##_data(NAME *v) { return v->d; }                                   \
    static inline T *NAME##_at(NAME *v, size_t i)                                             \
    {                                                                                         \
        MODEL_ASSERT(i < v->n, "std::vector::at: index out of range (std::out_of_range)");    \
        return &v->d[i];                                                                      \
    }                                                                                         \
    static inline T *NAME##_index(NAME *v, size_t i)                                          \
    {                                                                                         \
        MODEL_ASSERT(i < v->n, "std::vector::operator[]: index out of range (undefined behaviour)"); \
        return &v->d[i];                                                                      \
    }                                                                                         \
    static inline void NAME##_push_back(NAME *v, T x)                                         \
    {                                                                                         \
        /* appending shifts nothing: written in place, every old element keeps its index */  \
        MODEL_BOUND(v->n + 1 < PW_CAP);                                                       \
        v->d[v->n] = x;                                                                       \
        v->n = v->n + 1;                                                                      \
    }                                                                                         \
    static inline void NAME##_pop_back(NAME *v)                                               \
    {                                                                                         \
        MODEL_ASSERT(v->n != 0, "std::vector::pop_back on an empty vector (undefined behaviour)"); \
        v->n = v->n - 1;                                                                      \
    }                                                                                         \
    static inline void NAME##_clear(NAME *v) { v->n = 0; }                                   \
    static inline void NAME##_reserve(NAME *v, size_t k) { (void)v; (void)k; }               \
    static inline void NAME##_erase_pos(NAME *v, size_t i)                                    \
    {                                                                                         \
        MODEL_ASSERT(i < v->n, "std::vector::erase: iterator not dereferenceable (undefined behaviour)"); \
        size_t n = v->n;                                                                      \
        if (i + 1 == n) {                                                                     \
            v->n = n - 1; /* erasing the last element shifts nothing */                       \
            return;                                                                           \
        }                                                                                     \
        T *nd = PW_FRESH(T);                                                                  \
        PW_AT_GHOSTS(if (g + 1 < n) nd[g] = (g < i) ? v->d[g] : v->d[g + 1]);                 \
        v->d = nd;                                                                            \
        v->n = n - 1;                                                                         \
    }                                                                                         \
    static inline void NAME##_insert_pos(NAME *v, size_t i, T x)                              \
    {                                                                                         \
        MODEL_ASSERT(i <= v->n, "std::vector::insert: iterator out of range (undefined behaviour)"); \
        T *nd = PW_FRESH(T);                                                                  \
        size_t n = v->n;                                                                      \
        MODEL_BOUND(n + 1 < PW_CAP);                                                          \
        PW_AT_GHOSTS(if (g <= n) nd[g] = (g < i) ? v->d[g] : (g == i ? x : v->d[g - 1]));     \
        nd[i] = x;                                                                            \
        v->d = nd;                                                                            \
        v->n = n + 1;                                                                         \
    }

#endif
/* v.at(i) / v[i] as lvalue expressions (the assertion stands for std::out_of_range / UB) */
#ifndef PW_COUNT_ONLY_VECTORS
#define VEC_AT(T, v, i) ((v)->d[vec_checked_index((i), (v)->n, 1)])
#define VEC_INDEX(T, v, i) ((v)->d[vec_checked_index((i), (v)->n, 0)])
#endif
static inline size_t vec_checked_index(size_t i, size_t n, bool at)
{
    if (at)
        MODEL_ASSERT(i < n, "std::vector::at: index out of range (std::out_of_range)");
    else
        MODEL_ASSERT(i < n, "std::vector::operator[]: index out of range (undefined behaviour)");
    return i;
}

/* *it as an lvalue expression; dereferencing end() is undefined behaviour */
#ifndef PW_COUNT_ONLY_VECTORS
#define VIT_DEREF(it) ((it).v->d[vit_checked_index((it).i, (it).v->n)])
#endif
static inline size_t vit_checked_index(size_t i, size_t n)
{
    MODEL_ASSERT(i < n, "iterator dereferenced at or past end()");
    return i;
}

#ifndef PW_COUNT_ONLY_VECTORS
#define VIT_DECL(NAME, CONT)                                                                  \
    typedef struct                                                                            \
    {                                                                                         \
        CONT *v;                                                                              \
        size_t i;                                                                             \
    } NAME;                                                                                   \
    static inline CONT##_elem_t *NAME##_ptr(NAME it)                                          \
    {                                                                                         \
        MODEL_ASSERT(it.i < CONT##_size(it.v), "iterator dereferenced at or past end()");     \
        return &CONT##_data(it.v)[it.i];                                                      \
    }                                                                                         \
    static inline CONT##_elem_t NAME##_deref(NAME it) { return *NAME##_ptr(it); }            \
    static inline NAME NAME##_add(NAME it, ptrdiff_t k)                                       \
    {                                                                                         \
        it.i = (size_t)((ptrdiff_t)it.i + k);                                                 \
        return it;                                                                            \
    }                                                                                         \
    static inline NAME CONT##_begin(const CONT *c) { return (NAME){(CONT *)c, 0}; }           \
    static inline NAME CONT##_end(const CONT *c) { return (NAME){(CONT *)c, CONT##_size(c)}; } \
    static inline NAME CONT##_cbegin(const CONT *c) { return (NAME){(CONT *)c, 0}; }          \
    static inline NAME CONT##_cend(const CONT *c) { return (NAME){(CONT *)c, CONT##_size(c)}; }

#else
/* iterators over count-only vectors: a position; dereferencing reads an unconstrained element */
#define VIT_DECL(NAME, CONT)                                                                  \
    typedef struct                                                                            \
    {                                                                                         \
        CONT *v;                                                                              \
        size_t i;                                                                             \
    } NAME;                                                                                   \
    static inline CONT##_elem_t NAME##_deref(NAME it) { return CONT##_get(it.v, it.i); }     \
    static inline NAME NAME##_add(NAME it, ptrdiff_t k) { return (NAME){it.v, (size_t)((ptrdiff_t)it.i + k)}; } \
    static inline NAME CONT##_begin(const CONT *c) { return (NAME){(CONT *)c, 0}; }           \
    static inline NAME CONT##_end(const CONT *c) { return (NAME){(CONT *)c, CONT##_size(c)}; } \
    static inline NAME CONT##_cbegin(const CONT *c) { return (NAME){(CONT *)c, 0}; }          \
    static inline NAME CONT##_cend(const CONT *c) { return (NAME){(CONT *)c, CONT##_size(c)}; }
#endif
#ifdef PW_COUNT_ONLY_VECTORS
#define VVEC_IT_OPS_RANGE(NAME, IT)                                                           \
    static inline IT NAME##_erase_2(NAME *v, IT a, IT b)                                      \
    {                                                                                         \
        NAME##_erase_range(v, a.i, b.i);                                                      \
        return a;                                                                             \
    }
#else
#define VVEC_IT_OPS_RANGE(NAME, IT)
#endif
#define VVEC_IT_OPS(NAME, IT)                                                                 \
    static inline IT NAME##_erase_1(NAME *v, IT it)                                           \
    {                                                                                         \
        NAME##_erase_pos(v, it.i);                                                            \
        return it;                                                                            \
    }                                                                                         \
    static inline IT NAME##_insert_2(NAME *v, IT it, NAME##_elem_t x)                         \
    {                                                                                         \
        NAME##_insert_pos(v, it.i, x);                                                        \
        return it;                                                                            \
    }                                                                                         \
    VVEC_IT_OPS_RANGE(NAME, IT)

#define VPAIR_DECL(NAME, A, B)                                                                \
    typedef struct                                                                            \
    {                                                                                         \
        A first;                                                                              \
        B second;                                                                             \
    } NAME;

/* ---- abstract map (an OVER-approximation): membership and stored values are unconstrained, so
 * every behaviour of the real std::map is included.  Only for code whose obligation does not
 * depend on the map's content (the importer's model library in C15).  VMAP_VAL_OK constrains a
 * looked-up value to the harness's object universe.                                          */
#ifndef VMAP_VAL_OK
#define VMAP_VAL_OK(v) 1
#endif
#define VMAP_DECL(NAME, K, V, PAIR)                                                           \
    typedef struct                                                                            \
    {                                                                                         \
        size_t n;                                                                             \
    } NAME;                                                                                   \
    typedef PAIR NAME##_elem_t;                                                               \
    V nondet_##NAME##_value(void);                                                            \
    static inline NAME NAME##_new(void) { return (NAME){0}; }                                 \
    static inline bool NAME##_keyeq(NAME a, NAME b) { return a.n == b.n; }                    \
    static inline size_t NAME##_size(const NAME *m) { return m->n; }                         \
    static inline size_t NAME##_count(const NAME *m, K k) { (void)m; (void)k; return nondet_bool() ? 1 : 0; } \
    static inline void NAME##_insert_1(NAME *m, PAIR p) { (void)p; m->n = nondet_size_t(); }  \
    static inline void NAME##_emplace(NAME *m, K k, V v) { (void)k; (void)v; m->n = nondet_size_t(); } \
    static inline V *NAME##_index(NAME *m, K k)                                               \
    {                                                                                         \
        (void)k;                                                                              \
        m->n = nondet_size_t();                                                               \
        V *cell = (V *)pw_fresh(sizeof(V));                                                   \
        *cell = nondet_##NAME##_value();                                                      \
        __CPROVER_assume(VMAP_VAL_OK(*cell));                                                 \
        return cell;                                                                          \
    }

/* ---- ghost-element set: membership of ONE arbitrary element Z (a ghost, chosen by the harness) is tracked exactly, the
 * membership of every other element is unconstrained.  Since Z is arbitrary, a fact proved about "Z in the set" holds
 * for every element; the set's size is unbounded.                                                                     */
#define VSET_DECL(NAME, K)                                                                    \
    typedef struct                                                                            \
    {                                                                                         \
        bool has_z;                                                                           \
    } NAME;                                                                                   \
    typedef K NAME##_elem_t;                                                                  \
    K NAME##_Z;                                                                               \
    static inline NAME NAME##_new(void) { return (NAME){0}; }                                 \
    static inline void NAME##_insert_1(NAME *s, K k)                                          \
    {                                                                                         \
        if (k == NAME##_Z)                                                                    \
            s->has_z = 1;                                                                     \
    }                                                                                         \
    static inline size_t NAME##_count(const NAME *s, K k) { return k == NAME##_Z ? (s->has_z ? 1 : 0) : (nondet_bool() ? 1 : 0); } \
    static inline void NAME##_clear(NAME *s) { s->has_z = 0; }

/* ---- strings as identities (sid): equal iff same id; "" is 0 -------------------------------
 * exact for code that only assigns, compares and tests emptiness                            */
typedef uint64_t sid;
static inline sid sid_new(void) { return 0; }
static inline bool sid_empty(const sid *s) { return *s == 0; }
static inline bool sid_eq(sid a, sid b) { return a == b; }
#define SID_INIT(s) SID_OF(s)
/* concatenation: empty operands are neutral; otherwise some non-empty string (which one is unconstrained:
 * an over-approximation that keeps exactly what identity-strings can say - emptiness)          */
#ifdef CBMC
uint64_t nondet_sid_concat(void);
static inline sid sid_concat(sid a, sid b)
{
    if (a == 0)
        return b;
    if (b == 0)
        return a;
    sid r = nondet_sid_concat();
    __CPROVER_assume(r != 0);
    return r;
}
#else
static inline sid sid_concat(sid a, sid b) { return a == 0 ? b : (b == 0 ? a : a * 1000003u + b); }
#endif

/* ---- object heap --------------------------------------------------------------------------*/
#ifndef HEAP_N
#define HEAP_N 65536
#endif
#define HEAP_FIELD(T, NAME) T NAME[HEAP_N];
/* typed havoc (a bool stays 0/1, which a byte-wise havoc does not guarantee) */
#define HAVOC_SCALAR_FIELD(F, T, A)                                                           \
    for (unsigned k = 0; k < HEAP_N; ++k) {                                                   \
        T nondet_field_##A(void);                                                             \
        F[k] = nondet_field_##A();                                                            \
    }
/* pointwise containers: arbitrary length, NULL buffer (the contract's is_fresh clauses allocate
 * the buffers that are used) */
#define HAVOC_CONTAINER_FIELD(F, T)                                                           \
    for (unsigned k = 1; k < HEAP_N; ++k)                                                     \
        F[k].n = nondet_size_t()
extern bool __alive[HEAP_N];
#define WEAK_LOCK(w) (((w) != 0 && __alive[w]) ? (w) : (ref)0)
extern size_t __addr[HEAP_N];
#define ADDR_OF(p) (__addr[p])

#endif
