/* Models of std::stod / std::stoi (specified from the C++ standard [string.conversions] and
 * C strtod/strtol): they throw std::invalid_argument iff no conversion can be performed, i.e.
 * iff the text has no numeric prefix, and std::out_of_range iff the converted value does not
 * fit.  A pending exception is recorded in __exc; the caller's lowered try/catch consumes
 * EXC_OUT_OF_RANGE, anything left is the obligation `no uncaught exception`.
 *
 * stoi is exact (value and range) for the bounded strings; stod's *value* is left
 * nondeterministic under CBMC (the value is libstdc++'s business, see DESIGN 3/C16) and is the
 * real strtod natively.                                                                      */
#ifndef VERIF_MODELS_NUMCONV_H
#define VERIF_MODELS_NUMCONV_H
#include "exact.h"

static inline bool __is_space(char c) { return c == ' ' || c == '\t' || c == '\n' || c == '\v' || c == '\f' || c == '\r'; }
static inline bool __is_digit(char c) { return c >= '0' && c <= '9'; }
static inline char __lower(char c) { return (c >= 'A' && c <= 'Z') ? (char)(c - 'A' + 'a') : c; }

/* does strtod find a subject sequence? */
static inline bool __strtod_has_prefix(vstr s)
{
    size_t i = 0;
    while (i < s.n && __is_space(s.d[i]))
        ++i;
    if (i < s.n && (s.d[i] == '+' || s.d[i] == '-'))
        ++i;
    if (i < s.n && __is_digit(s.d[i]))
        return 1;
    if (i + 1 < s.n && s.d[i] == '.' && __is_digit(s.d[i + 1]))
        return 1;
    if (i + 2 < s.n && __lower(s.d[i]) == 'i' && __lower(s.d[i + 1]) == 'n' && __lower(s.d[i + 2]) == 'f')
        return 1;
    if (i + 2 < s.n && __lower(s.d[i]) == 'n' && __lower(s.d[i + 1]) == 'a' && __lower(s.d[i + 2]) == 'n')
        return 1;
    return 0;
}

#ifndef CBMC
#include <errno.h>
#include <stdlib.h>
#include <math.h>
#endif

static inline double std_stod(vstr s)
{
    if (!__strtod_has_prefix(s)) {
        __exc = EXC_INVALID_ARGUMENT;
        return 0.0;
    }
#ifdef CBMC
    if (nondet_bool()) {
        __exc = EXC_OUT_OF_RANGE;
        return 0.0;
    }
    return nondet_double();
#else
    char buf[VSTR_CAP + 1];
    memcpy(buf, s.d, s.n);
    buf[s.n] = 0;
    errno = 0;
    double v = strtod(buf, NULL);
    if (errno == ERANGE) {
        __exc = EXC_OUT_OF_RANGE;
        return 0.0;
    }
    return v;
#endif
}

static inline int std_stoi(vstr s)
{
    size_t i = 0;
    while (i < s.n && __is_space(s.d[i]))
        ++i;
    bool neg = 0;
    if (i < s.n && (s.d[i] == '+' || s.d[i] == '-')) {
        neg = s.d[i] == '-';
        ++i;
    }
    if (!(i < s.n && __is_digit(s.d[i]))) {
        __exc = EXC_INVALID_ARGUMENT;
        return 0;
    }
    long long v = 0;
    bool over = 0;
    for (; i < s.n && __is_digit(s.d[i]); ++i) {
        if (!over) {
            v = v * 10 + (s.d[i] - '0');
            if (v > 4294967296LL)
                over = 1;
        }
    }
    if (neg)
        v = -v;
    if (over || v > 2147483647LL || v < -2147483648LL) {
        __exc = EXC_OUT_OF_RANGE;
        return 0;
    }
    return (int)v;
}
#endif
