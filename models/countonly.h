/* Count-only vectors (an OVER-approximation): a std::vector keeps its length; every element read yields an
 * unconstrained value (VEC_VAL_OK restricts object ids to the harness's universe).  Every behaviour of the
 * real vector is included, so an obligation proved with it holds of the real code; used where the obligation
 * does not depend on what the vectors hold (importer.cpp in C15: the import history, lists of names).
 * Include BEFORE pointwise.h.                                                                            */
#ifndef VERIF_MODELS_COUNTONLY_H
#define VERIF_MODELS_COUNTONLY_H
#include "base.h"
#define PW_COUNT_ONLY_VECTORS 1
#ifndef VEC_VAL_OK
#define VEC_VAL_OK(v) 1
#endif
#define VVEC_DECL(NAME, T)                                                                    \
    typedef struct                                                                            \
    {                                                                                         \
        size_t n;                                                                             \
    } NAME;                                                                                   \
    typedef T NAME##_elem_t;                                                                  \
    T nondet_##NAME##_elem(void);                                                             \
    static inline NAME NAME##_new(void) { return (NAME){0}; }                                 \
    static inline size_t NAME##_size(const NAME *v) { return v->n; }                         \
    static inline bool NAME##_empty(const NAME *v) { return v->n == 0; }                     \
    static inline T NAME##_get(const NAME *v, size_t i)                                       \
    {                                                                                         \
        MODEL_ASSERT(i < v->n, "std::vector element access: index out of range (std::out_of_range / undefined behaviour)"); \
        T c = nondet_##NAME##_elem();                                                         \
        __CPROVER_assume(VEC_VAL_OK(c));                                                      \
        return c;                                                                             \
    }                                                                                         \
    /* back()/front() as lvalues: a fresh cell (never inside a loop that carries a loop contract: dfcc forbids allocation there) */ \
    static inline T *NAME##_cellp(NAME *v, size_t i)                                          \
    {                                                                                         \
        MODEL_ASSERT(i < v->n, "std::vector element access on an empty vector / out of range (undefined behaviour)"); \
        T *c = (T *)pw_fresh(sizeof(T));                                                      \
        *c = nondet_##NAME##_elem();                                                          \
        __CPROVER_assume(VEC_VAL_OK(*c));                                                     \
        return c;                                                                             \
    }                                                                                         \
    static inline T *NAME##_back(NAME *v) { return NAME##_cellp(v, v->n - 1); }              \
    static inline T *NAME##_front(NAME *v) { return NAME##_cellp(v, 0); }                    \
    static inline void NAME##_erase_pos(NAME *v, size_t i)                                    \
    {                                                                                         \
        MODEL_ASSERT(i < v->n, "std::vector::erase: iterator not dereferenceable (undefined behaviour)"); \
        v->n = v->n - 1;                                                                      \
    }                                                                                         \
    static inline void NAME##_insert_pos(NAME *v, size_t i, T x)                              \
    {                                                                                         \
        (void)x;                                                                              \
        MODEL_ASSERT(i <= v->n, "std::vector::insert: iterator out of range (undefined behaviour)"); \
        __CPROVER_assume(v->n + 1 != 0);                                                      \
        v->n = v->n + 1;                                                                      \
    }                                                                                         \
    static inline void NAME##_erase_range(NAME *v, size_t i, size_t j)                        \
    {                                                                                         \
        MODEL_ASSERT(i <= j && j <= v->n, "std::vector::erase(first, last): invalid range (undefined behaviour)"); \
        v->n = v->n - (j - i);                                                                \
    }                                                                                         \
    static inline void NAME##_push_back(NAME *v, T x)                                         \
    {                                                                                         \
        (void)x;                                                                              \
        __CPROVER_assume(v->n + 1 != 0);                                                      \
        v->n = v->n + 1;                                                                      \
    }                                                                                         \
    static inline void NAME##_pop_back(NAME *v)                                               \
    {                                                                                         \
        MODEL_ASSERT(v->n != 0, "std::vector::pop_back on an empty vector (undefined behaviour)"); \
        v->n = v->n - 1;                                                                      \
    }                                                                                         \
    static inline void NAME##_clear(NAME *v) { v->n = 0; }                                   \
    static inline void NAME##_reserve(NAME *v, size_t k) { (void)v; (void)k; }
/* element reads are values, not lvalues: code that writes through an element reference is outside this model */
#define VEC_AT(TN, v, i) (TN##_get((v), (i)))
#define VEC_INDEX(TN, v, i) (TN##_get((v), (i)))
#endif
