/* Common prelude of every lowered unit: object ids, the assertion vocabulary that stands for
 * C++ exceptions, and the switch between CBMC and native (conformance / replay) builds.
 *
 * CBMC builds pass -DCBMC (goto-cc does not predefine anything usable).                    */
#ifndef VERIF_MODELS_BASE_H
#define VERIF_MODELS_BASE_H

#include <stdbool.h>
#include <stddef.h>
#include <stdint.h>
#include <string.h>

#ifndef REF_T
#define REF_T unsigned short
#endif
typedef REF_T ref; /* object id of a libCellML object; 0 is nullptr */

#ifdef CBMC
/* An assertion that stands for "the C++ library call would throw here" (vector::at out of
 * range, string::erase pos > size, map::at missing key, ...) or "null shared_ptr dereferenced". */
#define MODEL_ASSERT(c, msg) __CPROVER_assert((c), msg)
/* Capacity assumptions of the *bounded* exact models: never used by pointwise models. */
#define MODEL_BOUND(c) __CPROVER_assume(c)
#define NONDET(T) nondet_##T()
bool nondet_bool(void);
int nondet_int(void);
size_t nondet_size_t(void);
double nondet_double(void);
char nondet_char(void);
ref nondet_ref(void);
uint64_t nondet_uint64_t(void);
#else
/* native build: contract clauses are not code */
#define __CPROVER_requires(...)
#define __CPROVER_ensures(...)
#define __CPROVER_assigns(...)
#define __CPROVER_loop_invariant(...)
#define __CPROVER_decreases(...)
#define __CPROVER_assert(c, m) ((void)0)
#define __CPROVER_assume(c) ((void)0)
#include <setjmp.h>
#include <stdio.h>
#include <stdlib.h>
extern jmp_buf __model_jmp;
extern const char *__model_fault_msg;
extern int __model_bound_hit;
static inline void __model_fault(const char *msg)
{
    __model_fault_msg = msg;
    longjmp(__model_jmp, 1);
}
static inline void __model_bound(void)
{
    __model_bound_hit = 1;
    longjmp(__model_jmp, 2);
}
#define MODEL_ASSERT(c, msg) do { if (!(c)) __model_fault(msg); } while (0)
#define MODEL_BOUND(c) do { if (!(c)) __model_bound(); } while (0)
#endif

/* pending C++ exception of the std::sto* models: 0 none */
#define EXC_OUT_OF_RANGE 1
#define EXC_INVALID_ARGUMENT 2
extern int __exc;
#define NO_UNCAUGHT_EXCEPTION() MODEL_ASSERT(__exc == 0, "no uncaught exception (std::invalid_argument would escape)")

static inline ref NN(ref p)
{
    MODEL_ASSERT(p != 0, "null shared_ptr dereferenced");
    return p;
}

/* std::ifstream / std::stringstream: an opaque environment value.  Whether a file opens and what
 * it contains are unconstrained; copying a stream buffer into a string stream keeps nothing but
 * that fact (the content is re-drawn when read).                                             */
typedef struct
{
    bool good;
} vstream;
static inline vstream vstream_new(void) { return (vstream){1}; }
#ifdef CBMC
static inline vstream vstream_open(void) { return (vstream){nondet_bool()}; }
uint64_t nondet_stream_content(void);
#define vstream_str_sid(s) ((sid)nondet_stream_content())
#else
static inline vstream vstream_open(void) { return (vstream){0}; }
#define vstream_str_sid(s) ((sid)0)
#endif
static inline bool vstream_good(vstream s) { return s.good; }
static inline void vstream_put(vstream *dst, vstream src) { (void)dst; (void)src; }

#include <float.h>
#include <limits.h>
#include <math.h>
/* std::numeric_limits<T>::f() */
#define NUMLIM_epsilon_d DBL_EPSILON
#define NUMLIM_max_d DBL_MAX
#define NUMLIM_max_sz SIZE_MAX
#define NUMLIM_max_i INT_MAX
#define NUMLIM_min_i INT_MIN
#define NUMLIM_infinity_d ((double)INFINITY)
#define std_isnan(x) (isnan(x) != 0)
#define std_isinf(x) (isinf(x) != 0)
#define std_fabs(x) fabs(x)
#define std_pow(x, y) pow(x, y)
#define std_log10(x) log10(x)
#define std_floor(x) floor(x)
#define std_abs(x) ((x) < 0 ? -(x) : (x))

#define STD_MIN(a, b) ((b) < (a) ? (b) : (a))
#define STD_MAX(a, b) ((a) < (b) ? (b) : (a))

#endif
