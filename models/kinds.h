/* Dynamic type of heap objects (ghost field __kind) and the class hierarchy of libCellML's
 * object model, for std::dynamic_pointer_cast<T> and virtual dispatch.
 *   Entity > ParentedEntity > NamedEntity > ComponentEntity > {Model, Component}
 *                           > NamedEntity > {Variable, Units}
 *          > ParentedEntity > Reset
 *   Entity > ImportSource
 *   ImportedEntity (mix-in) : Component, Units                                             */
#ifndef VERIF_MODELS_KINDS_H
#define VERIF_MODELS_KINDS_H
#define K_NONE 0
#define K_MODEL 1
#define K_COMPONENT 2
#define K_VARIABLE 3
#define K_UNITS 4
#define K_RESET 5
#define K_IMPORTSOURCE 6
#define K_MAX 6
extern unsigned char __kind[HEAP_N];
#define KIND(p) (__kind[p])
#define IS_Model(p) (KIND(p) == K_MODEL)
#define IS_Component(p) (KIND(p) == K_COMPONENT)
#define IS_Variable(p) (KIND(p) == K_VARIABLE)
#define IS_Units(p) (KIND(p) == K_UNITS)
#define IS_Reset(p) (KIND(p) == K_RESET)
#define IS_ImportSource(p) (KIND(p) == K_IMPORTSOURCE)
#define IS_ComponentEntity(p) (IS_Model(p) || IS_Component(p))
#define IS_NamedEntity(p) (IS_ComponentEntity(p) || IS_Variable(p) || IS_Units(p))
#define IS_ParentedEntity(p) (IS_NamedEntity(p) || IS_Reset(p))
#define IS_ImportedEntity(p) (IS_Component(p) || IS_Units(p))
#define IS_Entity(p) (KIND(p) >= 1 && KIND(p) <= K_MAX)
#define DYNCAST(T, p) (((p) != 0 && IS_##T(p)) ? (p) : (ref)0)
#define DYNCAST_Model(p) DYNCAST(Model, p)
#define DYNCAST_Component(p) DYNCAST(Component, p)
#define DYNCAST_Variable(p) DYNCAST(Variable, p)
#define DYNCAST_libcellml_Variable(p) DYNCAST(Variable, p)
#define DYNCAST_Units(p) DYNCAST(Units, p)
#define DYNCAST_Reset(p) DYNCAST(Reset, p)
#define DYNCAST_ImportSource(p) DYNCAST(ImportSource, p)
#define DYNCAST_ComponentEntity(p) DYNCAST(ComponentEntity, p)
#define DYNCAST_NamedEntity(p) DYNCAST(NamedEntity, p)
#define DYNCAST_ParentedEntity(p) DYNCAST(ParentedEntity, p)
#define DYNCAST_ImportedEntity(p) DYNCAST(ImportedEntity, p)
#define DYNCAST_Entity(p) DYNCAST(Entity, p)
#endif
