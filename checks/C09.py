#!/usr/bin/env python3
"""C09 - ownership invariants survive every container operation; bad arguments never crash."""
import os
import re
import sys

sys.path.insert(0, os.path.join(os.path.dirname(os.path.abspath(__file__)), "..", "tools"))
import engine
import nativelib
from common import SRC, VERIF, Undecided, log, run
from engine import Harness, UnitSpec
from propcheck import Check

SP = "std::shared_ptr<libcellml::%s> const&"
BASE = [("entity.cpp", "Entity::equals"), ("namedentity.cpp", "NamedEntity::name"),
        ("parentedentity.cpp", "ParentedEntity::hasParent"), ("parentedentity.cpp", "ParentedEntity::parent"),
        ("parentedentity.cpp", "ParentedEntity::ParentedEntityImpl::setParent"), ("parentedentity.cpp", "ParentedEntity::ParentedEntityImpl::removeParent")]
U = {
    "variables": BASE + [("component.cpp", "Component::" + f) for f in [
        "addVariable", "removeVariable(unsigned long)", "removeVariable(std::string const&)", "removeVariable(%s)" % (SP % "Variable"),
        "removeAllVariables", "variable(unsigned long) const", "variable(std::string const&) const", "takeVariable(unsigned long)",
        "takeVariable(std::string const&)", "variableCount", "ComponentImpl::findVariable(std::string const&) const",
        "ComponentImpl::findVariable(%s) const" % (SP % "Variable")]],
    "resets": BASE + [("component.cpp", "Component::" + f) for f in [
        "addReset", "removeReset(unsigned long)", "removeReset(%s)" % (SP % "Reset"), "removeAllResets", "takeReset",
        "reset(unsigned long) const", "resetCount", "ComponentImpl::findReset"]],
    "units": BASE + [("model.cpp", "Model::" + f) for f in [
        "addUnits", "removeUnits(unsigned long)", "removeUnits(std::string const&)", "removeUnits(%s)" % (SP % "Units"), "removeAllUnits",
        "units(unsigned long) const", "units(std::string const&) const", "takeUnits(unsigned long)", "takeUnits(std::string const&)",
        "replaceUnits(unsigned long, %s)" % (SP % "Units"), "replaceUnits(std::string const&, %s)" % (SP % "Units"),
        "replaceUnits(%s, %s)" % (SP % "Units", SP % "Units"), "unitsCount", "ModelImpl::findUnits(std::string const&) const",
        "ModelImpl::findUnits(%s) const" % (SP % "Units")]],
    "components": BASE + [("parentedentity.cpp", "ParentedEntity::hasAncestor")] + [("componententity.cpp", "ComponentEntity::" + f) for f in [
        "addComponent", "doAddComponent", "removeComponent(unsigned long)", "removeComponent(std::string const&, bool)",
        "removeComponent(%s, bool)" % (SP % "Component"), "removeAllComponents", "componentCount",
        "containsComponent(std::string const&, bool) const", "containsComponent(%s, bool) const" % (SP % "Component"),
        "component(unsigned long) const", "component(std::string const&, bool) const", "takeComponent(unsigned long)",
        "takeComponent(std::string const&, bool)", "replaceComponent(unsigned long, %s)" % (SP % "Component"),
        "replaceComponent(std::string const&, %s, bool)" % (SP % "Component"),
        "replaceComponent(%s, %s, bool)" % (SP % "Component", SP % "Component"),
        "ComponentEntityImpl::findComponent(std::string const&) const", "ComponentEntityImpl::findComponent(%s) const" % (SP % "Component")]]
    + [("component.cpp", "Component::doAddComponent"), ("model.cpp", "Model::doAddComponent"), ("utilities.cpp", "removeComponentFromEntity")],
    "equivalences": [("variable.cpp", "Variable::" + f) for f in [
        "addEquivalence(%s, %s)" % (SP % "Variable", SP % "Variable"),
        "addEquivalence(%s, %s, std::string const&, std::string const&)" % (SP % "Variable", SP % "Variable"),
        "removeEquivalence", "removeAllEquivalences", "VariableImpl::setEquivalentTo", "VariableImpl::unsetEquivalentTo",
        "VariableImpl::cleanExpiredVariables", "VariableImpl::setEquivalentMappingId", "VariableImpl::setEquivalentConnectionId",
        "VariableImpl::findEquivalentVariable(%s)" % (SP % "Variable"), "VariableImpl::findEquivalentVariable(%s) const" % (SP % "Variable"),
        "VariableImpl::hasEquivalentVariable", "VariableImpl::hasIndirectEquivalentVariable", "hasEquivalentVariable", "equivalentVariable",
        "equivalentVariableCount"]] + [("variable.cpp", "haveEquivalentVariables")],
}
RS = {"equivalences": ["haveEquivalentVariables"],
      "components": ["ParentedEntity_hasAncestor", "ComponentEntity_removeComponent__s_b", "ComponentEntity_removeComponent__ref_b",
                     "ComponentEntity_containsComponent__s_b", "ComponentEntity_containsComponent__ref_b", "ComponentEntity_component__s_b",
                     "ComponentEntity_takeComponent__s_b", "ComponentEntity_replaceComponent__s_ref_b", "ComponentEntity_replaceComponent__ref_ref_b"]}
CARRIES = {
    "variables": "Component's variable list: add/move, remove by index/name/pointer, take, removeAll, lookups - listed children report the container, "
                 "nothing listed twice or by two containers, exactly the addressed child is affected, null/foreign/out-of-range arguments are refused without change or crash",
    "resets": "Component's reset list: add/move, remove by index/pointer, take, removeAll, lookups - same obligations",
    "units": "Model's units list: add/move, remove x3, take x2, replace x3, removeAll, lookups - same obligations",
    "components": "child components of a component or model: add (self/ancestor insertion refused, hierarchy stays acyclic), remove x3, take x2, replace x3, "
                  "removeAll, lookups - same obligations",
    "equivalences": "variable equivalences: add (x2), remove, removeAll, equivalentVariable/Count, direct lookup - symmetric, no duplicates, never a destroyed "
                    "variable, null arguments refused without dereference",
}


def main(argv):
    c = Check("C09", "model_checking")
    c.parse_args(argv)
    for nm, F in U.items():
        c.units.append(UnitSpec(nm, sorted(set(t for t, _ in F)), [(t, "libcellml::" + f) for t, f in F], string_model="sid",
                                models=("exact.h", "sidstr.h"), spec_header="specs/C09/spec.h", harness_file="specs/C09/harness.c",
                                prelude="#define H_%s 1" % nm.upper(), rec_stubs=RS.get(nm, [])))
        D = {"HEAP_N": 9 if nm != "equivalences" else 5, "REF_T": "unsigned", "VVEC_CAP": 4, "MAXN": 2, "VMAP_CAP": 2}
        c.harnesses.append((nm, Harness("h_" + nm, "B", defines=D, unwind=5 if nm != "equivalences" else 6, backend="sat", timeout=1800,
                                        bound="each child list <= 2 entries before the call (<= 3 equivalences per variable); two containers, "
                                              "a free entity, a grandparent; one arbitrary call per run",
                                        carries=CARRIES[nm])))
    c.trusted_base = [
        "inductive argument: every mutator preserves the invariant from an arbitrary well-formed state, so it holds after any call sequence "
        "(one call per harness run from a symbolic well-formed world; the world's size is bounded)",
        "equals() between siblings is an arbitrary equivalence relation (structurally identical siblings exist in every run)",
        "canonical object ids (symmetry); exact bounded vector/map models; strings as identities",
        "recursion into encapsulated children (searchEncapsulated == true) is the inductive step and is not exercised; "
        "ParentedEntity::hasAncestor's recursive call is its own contract",
        "reference counts / object lifetime are dropped by the lowering: use-after-free is not decided here (the native history fuzz runs on the real code)",
    ]
    c.explanation = ("One symbolic call of every container mutator / accessor of the object model (lowered from component.cpp, componententity.cpp, "
                     "model.cpp, variable.cpp, parentedentity.cpp, utilities.cpp) from an arbitrary well-formed small world, against post-conditions "
                     "written from the property: parent links, no double listing, exactly-that-object, refusal without change, acyclicity guard, symmetric "
                     "equivalences. Decided by CBMC (SAT) with unwinding assertions: BOUNDED by the world size, labelled bounded and not counted as proved.")
    c.not_covered = ["services that accept entities (annotator, importer, analyser, external variables, analyser-model queries): their null/foreign-argument "
                     "paths are not lowered", "use-after-free / lifetime (dropped by the lowering)",
                     "searchEncapsulated == true recursion", "Component::isDefined() outside a model"]
    exe = {}

    def native(chk):
        d = chk.built["variables"].dir
        exe["x"] = os.path.join(d, "c09_native")
        nativelib.compile_driver(os.path.join(VERIF, "replay/C09_native.cpp"), exe["x"])
        rc, out, err, _ = run([exe["x"], "fuzz", str(chk.seed), "4000" if chk.tier == "quick" else "100000"], timeout=900)
        if rc != 0 and "FUZZ" not in out:
            out = "FUZZ violates=1 history=(crash) why=the real code terminated abnormally rc=%s %s" % (rc, (err or "")[-300:].replace("\n", " "))
        m = re.search(r"FUZZ violates=(\d)", out)
        if not m:
            raise Undecided("native history fuzz did not run: rc=%s %s" % (rc, (out + err)[-300:]))
        chk.fuzz_out = out.strip()
        chk.native_facts.append(("native random API histories keep the ownership invariants (independent traversal after every call)",
                                 m.group(1) == "0", out.strip()[-300:]))

    c.pre_steps = [native]

    def replay(chk, h, o, ce):
        out = getattr(chk, "fuzz_out", "")
        m = re.search(r"FUZZ violates=1 history=(\S+) why=(.*)", out)
        if m:
            return True, "real code after the API history [%s]: %s" % (m.group(1), m.group(2)[:300]), "fuzz:" + m.group(2)[:60], {"fuzz": out[:800], "ce": ce}
        return None, "the native history fuzz found no invariant violation (seed %d); counterexample of the verifier: %s" % (chk.seed, ce), None, {"ce": ce}

    c.replayers["*"] = replay
    if getattr(c, "replay_file", None):
        import json
        r = json.load(open(c.replay_file))
        print(json.dumps({k: r.get(k) for k in ("failed_obligation", "counterexample", "replayed_on_real_code", "replay_detail")}, indent=1))
        return 0
    rc = c.run()
    if getattr(c, "write_baseline", False):
        c.write_baseline_file()
    return rc


if __name__ == "__main__":
    sys.exit(main(sys.argv[1:]))
