#!/usr/bin/env python3
"""C16 - numeric text is recognised per the CellML grammar and conversion never throws."""
import os
import re
import sys

sys.path.insert(0, os.path.join(os.path.dirname(os.path.abspath(__file__)), "..", "tools"))
import engine
from common import SRC, Undecided, log, run
from engine import Harness, UnitSpec
from propcheck import Check

FNS = ["isEuropeanNumericCharacter", "isNonNegativeCellMLInteger", "isCellMLInteger", "isCellMLExponent",
       "findOccurrences", "isCellMLBasicReal", "isCellMLReal", "stringToDouble", "canConvertToBasicDouble",
       "convertToDouble", "convertToInt", "convertPrefixToInt", "isStandardPrefixName"]

# std::sto* call sites that are under contract here or known and listed as unproved
KNOWN_STO_SITES = {
    ("utilities.cpp", "stringToDouble"): "under contract (h_stringToDouble, h_convertToDouble, h_canConvertToBasicDouble)",
    ("utilities.cpp", "convertToInt"): "under contract (h_convertToInt)",
    ("units.cpp", "addUnit"): "under contract (h_addUnit_prefix)",
    ("validator.cpp", "validateUnitsUnitsItem"): "guarded by isCellMLInteger(prefix) and try/catch(std::out_of_range) - structural check below",
    ("analyser.cpp", "powerValue"): "NOT under contract: no recogniser dominates the call in its own function (unproved call-site precondition)",
}


def main(argv):
    c = Check("C16", "model_checking")
    c.parse_args(argv)
    n = 6 if c.tier == "quick" else 9
    cap = n + 2
    unit = UnitSpec("recognisers", ["utilities.cpp"], [("utilities.cpp", "libcellml::" + f) for f in FNS],
                    string_model="vstr", models=("exact.h", "numconv.h"), spec_header="specs/C16/spec.h",
                    harness_file="specs/C16/harness.c")
    units_unit = UnitSpec("units", ["units.cpp"], [("units.cpp", "libcellml::Units::addUnit(std::string const&, std::string const&, double, double, std::string const&)")],
                          string_model="vstr", models=("exact.h", "numconv.h"), spec_header="specs/C16/spec.h",
                          harness_file="specs/C16/harness.c", prelude="#define UNIT_UNITS 1", must_fire=False)
    c.units = [unit, units_unit]
    D = {"N": n, "VSTR_CAP": cap, "VVEC_CAP": cap}
    uw = cap + 3
    bound = "strings <= %d bytes over all 256 byte values" % n

    # the two conversions to int multiply digit by digit: beyond 7 bytes the SAT query does not finish in the budget (measured), so the thorough
    # tier stops at 7 for them (the other eleven harnesses go to 9)
    ni = min(n, 7)
    DI = {"N": ni, "VSTR_CAP": ni + 2, "VVEC_CAP": ni + 2}

    def H(name, enforce, replace=(), kind="B", unwind=uw, carries="", timeout=900, tier="quick", defines=D, bound=bound):
        return ("recognisers", Harness("h_" + name, kind, enforce=enforce, replace=replace, unwind=unwind, defines=defines,
                                       backend="sat", timeout=timeout, tier=tier, carries=carries,
                                       bound=None if kind == "F" else bound))
    c.harnesses = [
        H("isEuropeanNumericCharacter", "isEuropeanNumericCharacter", kind="F", unwind=14,
          carries="decimal digit = '0'..'9' for every char value (complete)"),
        H("isNonNegativeCellMLInteger", "isNonNegativeCellMLInteger", ["isEuropeanNumericCharacter"],
          carries="one or more digits"),
        H("isCellMLInteger", "isCellMLInteger", ["isNonNegativeCellMLInteger"],
          carries="integer = optional sign followed by one or more digits"),
        H("isCellMLExponent", "isCellMLExponent", ["isCellMLInteger"], carries="e-notation exponent is an integer"),
        H("isCellMLBasicReal", "isCellMLBasicReal", ["isEuropeanNumericCharacter"],
          carries="mantissa = optional minus, >= 1 digit, <= 1 decimal point"),
        H("isCellMLReal", "isCellMLReal", ["isCellMLBasicReal", "isCellMLExponent"],
          carries="real = mantissa optionally followed by e/E and an integer"),
        H("stringToDouble", "stringToDouble", carries="std::stod on text with a numeric prefix: out_of_range caught, nothing escapes"),
        H("convertToDouble", "convertToDouble", ["isCellMLReal", "stringToDouble"],
          carries="accepted real text reaches std::stod only with a numeric prefix (conversion never throws)"),
        H("canConvertToBasicDouble", "canConvertToBasicDouble", ["isCellMLBasicReal", "stringToDouble"],
          carries="accepted mantissa text reaches std::stod only with a numeric prefix"),
        H("convertToInt", "convertToInt", ["isCellMLInteger"], defines=DI, unwind=ni + 5, timeout=1800, bound="strings <= %d bytes over all 256 byte values" % ni,
          carries="integer text converted to its value or reported out of range, never throws"),
        H("isStandardPrefixName", "isStandardPrefixName", unwind=max(uw, 23), carries="SI prefix names against an independent SI table"),
        H("convertPrefixToInt", "convertPrefixToInt", ["isStandardPrefixName", "convertToInt"], unwind=max(ni + 5, 23), defines=DI, timeout=1800,
          bound="strings <= %d bytes over all 256 byte values" % ni, carries="prefix text: SI name / empty / integer / rejected"),
    ]
    c.harnesses.append(("units", Harness("h_addUnit_prefix", "B", enforce=None, replace=["isCellMLInteger"], unwind=uw, defines=dict(D, HEAP_N=2, VVEC_CAP=2), backend="sat",
                                         timeout=900, bound=bound,
                                         carries="the integer-prefix call site in Units::addUnit: std::stoi only behind the integer recogniser, nothing escapes, "
                                                 "non-integer prefix text is kept so that it is reported")))
    c.trusted_base = [
        "exact bounded models of std::string/vector/set/map (models/exact.h), differentially tested through the "
        "lowering-conformance run against the real functions on every run",
        "std::stod/std::stoi failure conditions as specified by the C++ standard (models/numconv.h); stod's value is nondeterministic",
        "cxx2c lowering of utilities.cpp (checked by the conformance run: lowered C == real C++ on enumerated + random strings)",
    ]
    c.explanation = ("Contracts (postconditions written from the property's grammar, not from the code) enforced per function "
                     "with goto-instrument --dfcc on C lowered mechanically from the clang AST of /repo/src/utilities.cpp; "
                     "callees replaced by their contracts. String-length loops are closed by unwinding with unwinding "
                     "assertions: BOUNDED (" + bound + "), labelled bounded and not counted as proved. "
                     "isEuropeanNumericCharacter is complete over all 256 chars.")
    c.not_covered = ["number output (convertToString 15 significant digits): libstdc++ formatting, not decided",
                     "parser/validator call sites that report rejected text as issues (only the recognisers/converters are under contract)",
                     "analyser.cpp powerValue: two std::stod call sites not dominated by a recogniser in their own function"]

    exe = {}

    def conformance(chk):
        b = chk.built["recognisers"]
        exe["x"] = engine.build_native(b, unit, "specs/C16/native_wrap.c", "replay/C16_native.cpp", "c16",
                                       defines={"VSTR_CAP": 12, "VVEC_CAP": 12, "N": 10})
        rc, out, err, secs = run([exe["x"], "conform", str(chk.seed), "4" if chk.tier == "quick" else "5"], timeout=900)
        m = re.search(r"CONFORM compared=(\d+) disagreements=(\d+)", out)
        if not m:
            raise Undecided("lowering conformance run did not finish: rc=%s %s" % (rc, (out + err)[-500:]))
        chk.native_facts.append(("lowering conformance: lowered C vs real C++ (utilities.cpp), all strings <= %s over a "
                                 "10-letter alphabet + 20000 seeded random + extremes, 11 functions" % ("4" if chk.tier == "quick" else "5"),
                                 m.group(2) == "0", out.strip()[-300:]))
        chk.extra_cov["traces_validated_against_impl"] = int(m.group(1))
        if m.group(2) != "0":
            raise Undecided("lowering conformance FAILED (cxx2c/model defect, invalidates this run, not a violation):\n" + out[-1500:])

    def inventory(chk):
        """Every std::sto* call site in /repo/src must be one of the known ones."""
        sites = []
        for f in sorted(os.listdir(SRC)):
            if not f.endswith((".cpp", ".h")):
                continue
            txt = open(os.path.join(SRC, f), errors="replace").read()
            for m in re.finditer(r"\bstd::sto(d|i|l|ul|ll|ull|f|ld)\s*\(", txt):
                line = txt.count("\n", 0, m.start()) + 1
                # enclosing function: nearest preceding line that looks like a definition header at column 0
                head = ""
                for l in reversed(txt[:m.start()].split("\n")):
                    mm = re.match(r"^[A-Za-z_].*?([A-Za-z_0-9]+)\s*\([^;]*$", l)
                    if mm and not l.startswith(("if", "for", "while", "switch", "return", "else")):
                        head = mm.group(1)
                        break
                sites.append((f, head, line))
        # a site inside a function that this run lowered (e.g. a new helper extracted from a function under contract and lowered with
        # it) is under contract: its std::sto* call is the model's call, with the model's exceptions
        lowered_names = set()
        for b in chk.built.values():
            for cn in getattr(b.lowered, "funcs", {}):
                lowered_names.add(cn.split("__")[0])
        unknown = [s for s in sites if (s[0], s[1]) not in KNOWN_STO_SITES and not any(cn == s[1] or cn.endswith("_" + s[1]) for cn in lowered_names)]
        chk.extra_cov["sto_call_sites"] = [{"file": f, "function": fn, "line": ln, "status": KNOWN_STO_SITES.get((f, fn), "NEW - not under contract")}
                                           for f, fn, ln in sites]
        # structural guard check for the two stoi sites outside utilities.cpp
        for f, fn in (("validator.cpp", "validateUnitsUnitsItem"),):
            txt = open(os.path.join(SRC, f), errors="replace").read()
            for m in re.finditer(r"std::stoi\s*\(\s*(\w+)\s*\)", txt):
                pre = txt[max(0, m.start() - 1500):m.start()]
                post = txt[m.end():m.end() + 400]
                ok = re.search(r"isCellMLInteger\(\s*%s\s*\)" % m.group(1), pre) and "try" in pre[-200:] and "catch (std::out_of_range" in post
                chk.native_facts.append(("%s: std::stoi(%s) is inside try/catch(std::out_of_range) after isCellMLInteger(%s)" % (f, m.group(1), m.group(1)), bool(ok), ""))
                if not ok:
                    raise Undecided("call-site inventory: std::stoi in %s is no longer guarded by isCellMLInteger + "
                                    "catch(std::out_of_range); this call site is not under contract" % f)
        if unknown:
            raise Undecided("call-site inventory: new std::sto* call site(s) not under contract: %s" % unknown)

    c.pre_steps = [conformance, inventory]

    def replay(chk, h, o, ce):
        fn = h.name[2:]
        s = ce.get("in_s")
        if fn == "isEuropeanNumericCharacter":
            ch = ce.get("in_c")
            if ch is None:
                return None, "no input in the counterexample", None, {}
            data = bytes([ch & 255])
        else:
            if not isinstance(s, dict) or "n" not in s:
                return None, "no input string in the counterexample", None, {}
            nn = s["n"]
            d = s.get("d", [])
            if isinstance(d, dict):
                d = [d.get(i, 0) for i in range(nn)]
            data = bytes([(x or 0) & 255 for x in d[:nn]])
        rc, out, err, secs = run([exe["x"], "replay", fn, data.hex()], timeout=60)
        m = re.search(r"REPLAY .* real_result=(-?\d+) real_threw=(\d) spec=(-?\d+) violates=(\d) why=(.*)", out)
        tag = "%s(%r)" % (fn, data.decode("latin1"))
        if rc not in (0,) and not m:
            # the real code crashed (e.g. uncaught exception -> abort): that is a reproduction
            return True, "real code terminated abnormally (rc=%s): %s" % (rc, (out + err)[-300:]), tag, {"input_hex": data.hex()}
        if not m:
            return None, "replay output unreadable: " + (out + err)[-300:], tag, {}
        return (m.group(4) == "1"), "%s on input %r: real result %s, exception class %s, spec %s: %s" % (
            fn, data.decode("latin1"), m.group(1), m.group(2), m.group(3), m.group(5)), tag, {"input_hex": data.hex(), "output": out.strip()}

    c.replayers["*"] = replay
    if getattr(c, "replay_file", None):
        import json
        r = json.load(open(c.replay_file))
        print(json.dumps({k: r.get(k) for k in ("failed_obligation", "counterexample", "replayed_on_real_code", "replay_detail")}, indent=1))
        return 0
    rc = c.run()
    if getattr(c, "write_baseline", False):
        c.write_baseline_file()
    return rc


if __name__ == "__main__":
    sys.exit(main(sys.argv[1:]))
