#!/usr/bin/env python3
"""C18 - variable-equivalence queries agree with the connection graph."""
import os
import re
import sys

sys.path.insert(0, os.path.join(os.path.dirname(os.path.abspath(__file__)), "..", "tools"))
import engine
import nativelib
from common import SRC, VERIF, Undecided, log, run
from engine import Harness, UnitSpec
from propcheck import Check


def main(argv):
    c = Check("C18", "other")
    c.parse_args(argv)
    cache = UnitSpec("cache", ["analysermodel.cpp"],
                     [("analysermodel.cpp", "libcellml::equivalentVariablesCacheKey"),
                      ("analysermodel.cpp", "libcellml::AnalyserModel::areEquivalentVariables")],
                     models=("exact.h",), spec_header="specs/C18/spec.h", harness_file="specs/C18/harness.c",
                     prelude="#define UNIT_CACHE 1")
    search = UnitSpec("search", ["utilities.cpp", "variable.cpp"],
                      [("utilities.cpp", "libcellml::areEquivalentVariables"),
                       ("variable.cpp", "libcellml::Variable::hasEquivalentVariable"),
                       ("variable.cpp", "libcellml::Variable::VariableImpl::hasEquivalentVariable"),
                       ("variable.cpp", "libcellml::Variable::VariableImpl::hasIndirectEquivalentVariable"),
                       ("variable.cpp", "libcellml::haveEquivalentVariables"),
                       ("variable.cpp", "libcellml::Variable::VariableImpl::findEquivalentVariable(std::shared_ptr<libcellml::Variable> const&) const"),
                       ("variable.cpp", "libcellml::Variable::equivalentVariable"),
                       ("variable.cpp", "libcellml::Variable::equivalentVariableCount")],
                      models=("exact.h",), spec_header="specs/C18/spec.h", harness_file="specs/C18/harness.c",
                      prelude="#define UNIT_SEARCH 1")
    # the bounded graph-search unit is built only on request: its unwinding (recursion x loops over
    # pointer-carrying iterators) does not finish within the time budget yet (DESIGN 3/C18)
    with_search = os.environ.get("VERIF_C18_SEARCH") == "1"
    # the depth-first search under its own contract (induction step + entry point): specs/C18/search.h
    dfs = UnitSpec("dfs", ["variable.cpp"], [("variable.cpp", "libcellml::haveEquivalentVariables"),
                                             ("variable.cpp", "libcellml::Variable::VariableImpl::hasIndirectEquivalentVariable")],
                   string_model="sid", models=("exact.h", "sidstr.h"), spec_header="specs/C18/search.h", harness_file="specs/C18/search_harness.c",
                   rec_stubs=["haveEquivalentVariables"])
    c.units = [cache, dfs] + ([search] if with_search else [])
    nv = 4 if c.tier == "quick" else 5
    D = {"HEAP_N": 6, "VMAP_CAP": 3}
    DS = {"HEAP_N": nv + 1, "VVEC_CAP": nv + 1, "NV": nv}
    c.harnesses = [
        ("cache", Harness("h_key_injective", "F", defines=D, backend="sat", timeout=900,
                          carries="regardless of where the objects live in memory: the cache key identifies the unordered "
                                  "pair of addresses, over the full 64-bit domain of all four addresses (complete)")),
        ("cache", Harness("h_key_injective_plausible", "F", defines=dict(D, PLAUSIBLE=1), backend="sat", timeout=600, tier="thorough",
                          carries="same, restricted to the addresses an x86-64 allocator can produce (16-aligned, < 2^47): "
                                  "a counterexample here is a quadruple of real heap addresses")),
        ("cache", Harness("h_cache_two_queries", "F", unwind=5, defines=D, backend="sat", timeout=300,
                          carries="areEquivalentVariables(v1,v2) answers what the uncached utility answers whatever was "
                                  "queried before, in either order, and when repeated (complete for the 2-query lemma, "
                                  "which covers all histories because emplace never overwrites)")),
    ]
    nvd = 4 if c.tier == "quick" else 5
    DD = {"HEAP_N": nvd + 1, "REF_T": "unsigned", "VVEC_CAP": 6, "MAXW": 3}
    getters = ["Variable_equivalentVariableCount", "Variable_equivalentVariable"]
    bd = "<= %d variables, <= 3 equivalent variables each (any lists, cycles included)" % nvd
    c.harnesses += [
        ("dfs", Harness("h_search_step", "B", enforce="haveEquivalentVariables", replace=getters + ["haveEquivalentVariables__rec"], unwind=nvd + 3, defines=DD,
                        backend="kissat|z3", timeout=2400, object_bits=12, bound=bd + "; recursion = the function's own contract (induction on the untested variables)",
                        carries="haveEquivalentVariables: true only if the target is reachable; false leaves every variable it added with all its equivalent variables "
                                "tested and none of them the target (depth-first-search contract) - BOUNDED width, inductive in depth")),
        ("dfs", Harness("h_search_entry", "B", replace=getters + ["haveEquivalentVariables"], unwind=nvd + 3, defines=DD, backend="kissat|z3", timeout=1200, object_bits=12, bound=bd,
                        carries="hasIndirectEquivalentVariable(v) (= hasEquivalentVariable(v, true)): true EXACTLY when v reaches this variable along equivalence lists, "
                                "by the search contract from an empty tested list - BOUNDED")),
    ]
    if with_search:
        c.harnesses += [("search", Harness("h_search_utility", "B", unwind=nv + 2, defines=DS, backend="sat", timeout=1500,
                           bound="connection graphs over <= %d variables, every symmetric adjacency" % nv,
                           carries="true exactly when the two variables are linked by a chain of equivalences (graph search), BOUNDED"))]
    c.trusted_base = [
        "exact bounded models of std::map / std::vector (models/exact.h)",
        "dfs unit: the equivalence lists are ghost tables read through contract stubs of equivalentVariable(i)/equivalentVariableCount(); reachability is computed "
        "independently in the harness (HEAP_N rounds of relaxation)",
        "the uncached utility is an arbitrary symmetric relation containing identity in the cache harness (symmetry of "
        "equivalence lists is C09's invariant)",
        "object addresses: an arbitrary injective map from objects to 16-byte-aligned 47-bit values in h_cache_two_queries; "
        "unconstrained 64-bit values in h_key_injective",
        "std::map::emplace never overwrites (used in the argument that the 2-query lemma covers all histories)",
    ]
    c.explanation = ("Key injectivity and the cache protocol are loop-free / completely unwound harnesses over full-domain symbolic "
                     "inputs on C lowered from AnalyserModel::areEquivalentVariables and its key helper: complete decisions (kind F). "
                     "The graph search (haveEquivalentVariables and its callers, lowered from variable.cpp/utilities.cpp) is checked "
                     "against reachability on every symmetric graph over a BOUNDED number of variables (kind B, not counted as proved).")
    c.not_covered = ["the search with real recursion unwound end to end (does not finish; the inductive contract proof replaces it)",
                     "utilities.cpp areEquivalentVariables / Variable::hasEquivalentVariable wrappers around hasIndirectEquivalentVariable (one-line forwards)",
                     "callers in analyser.cpp/generator.cpp that consume the answer"]
    exe = {}

    def build_replay(chk):
        d = chk.built["cache"].dir
        exe["x"] = os.path.join(d, "c18_native")
        nativelib.compile_driver(os.path.join(VERIF, "replay/C18_native.cpp"), exe["x"])
        # sanity: the hook answers, and agrees with the lowered key on a fixed vector
        rc, out, err, _ = run([exe["x"], "16", "32", "32", "16"], timeout=30)
        ok = "same_pair=1 same_key=1" in out
        chk.native_facts.append(("hook verifEquivalentVariablesCacheKey reachable in the library built from /repo (guard on)", ok, out.strip()))
        if not ok:
            raise Undecided("C18 hook does not answer as expected: %s %s" % (out, err[-300:]))
        rc, out, err, _ = run([exe["x"], "search", str(chk.seed), "3000" if chk.tier == "quick" else "60000"], timeout=900)
        if "SEARCH" not in out:
            out = "SEARCH violates=1 what=the real code terminated abnormally rc=%s %s" % (rc, (err or "")[-200:].replace("\n", " "))
        chk.search_out = out.strip()
        chk.native_facts.append(("native random equivalence networks (2-7 variables, cycles): hasEquivalentVariable(w, true) for every ordered pair, shuffled and repeated, "
                                 "equals reachability computed from the equivalence lists", "violates=0" in out, out.strip()[-300:]))

    c.pre_steps = [build_replay]

    def replay(chk, h, o, ce):
        if h.name == "h_cache_two_queries" and "key" not in o.get("desc", ""):
            # an answer of the cached query: the native networks ask AnalyserModel::areEquivalentVariables for every pair, shuffled, twice
            out = getattr(chk, "search_out", "")
            m = re.search(r"SEARCH violates=1 what=(.*)", out)
            if m:
                return True, "real code: " + m.group(1)[:500], "search", {"search": out[:1000]}
            return None, "the native random networks found no wrong answer (seed %d)" % chk.seed, None, {}
        if h.name == "h_key_injective":
            vals = [ce.get("in_" + k) for k in "abcd"]
        elif h.name == "h_cache_two_queries":
            vals = [ce.get("ce_" + k) for k in "abcd"]
        elif h.name in ("h_search_step", "h_search_entry"):
            out = getattr(chk, "search_out", "")
            m = re.search(r"SEARCH violates=1 what=(.*)", out)
            if m:
                return True, "real code: " + m.group(1)[:500], "search", {"search": out[:1000]}
            return None, "the native random networks found no wrong answer (seed %d)" % chk.seed, None, {}
        else:
            return None, "no native replay for the bounded graph-search harness", None, {}
        if any(v is None for v in vals):
            return None, "counterexample carries no address quadruple", None, {}
        rc, out, err, _ = run([exe["x"]] + [str(v) for v in vals], timeout=30)
        m = re.search(r"same_pair=(\d) same_key=(\d) violates=(\d)", out)
        if not m:
            return None, "replay output unreadable: " + (out + err)[-200:], None, {}
        tag = "key(%#x,%#x) vs key(%#x,%#x)" % tuple(vals)
        return m.group(3) == "1", out.strip(), tag, {"addresses": vals}

    c.replayers["*"] = replay
    # a changed signature of the search leaves the added parameters unconstrained in the induction-step harness (CALLN wrapper): a failure then
    # counts only when the native networks reproduce a wrong answer
    c.replay_required = lambda h, o: h.name == "h_search_step" and len(getattr(c.built["dfs"].lowered.funcs.get("haveEquivalentVariables"), "params", [0, 0, 0])) != 3
    if getattr(c, "replay_file", None):
        import json
        r = json.load(open(c.replay_file))
        print(json.dumps({k: r.get(k) for k in ("failed_obligation", "counterexample", "replayed_on_real_code", "replay_detail")}, indent=1))
        return 0
    rc = c.run()
    if getattr(c, "write_baseline", False):
        c.write_baseline_file()
    return rc


if __name__ == "__main__":
    sys.exit(main(sys.argv[1:]))
