#!/usr/bin/env python3
"""C10 - equals() is an equivalence relation that sees every attribute."""
import os
import re
import sys

sys.path.insert(0, os.path.join(os.path.dirname(os.path.abspath(__file__)), "..", "tools"))
import engine
import nativelib
from common import SRC, VERIF, Undecided, log, run
from engine import Harness, UnitSpec
from propcheck import Check

SCALAR = [("entity.cpp", "Entity::doEquals"), ("entity.cpp", "Entity::equals"), ("entity.cpp", "Entity::id"),
          ("namedentity.cpp", "NamedEntity::doEquals"), ("namedentity.cpp", "NamedEntity::name"),
          ("importsource.cpp", "ImportSource::doEquals"), ("importsource.cpp", "ImportSource::url"),
          ("importedentity.cpp", "ImportedEntity::doEquals"), ("importedentity.cpp", "ImportedEntity::isImport"),
          ("importedentity.cpp", "ImportedEntity::importSource"), ("importedentity.cpp", "ImportedEntity::importReference"),
          ("variable.cpp", "Variable::doEquals"), ("variable.cpp", "Variable::units"), ("variable.cpp", "Variable::initialValue"),
          ("variable.cpp", "Variable::interfaceType"),
          ("reset.cpp", "Reset::doEquals"), ("reset.cpp", "Reset::order"), ("reset.cpp", "Reset::variable"),
          ("reset.cpp", "Reset::testVariable"), ("reset.cpp", "Reset::testValue"), ("reset.cpp", "Reset::testValueId"),
          ("reset.cpp", "Reset::resetValue"), ("reset.cpp", "Reset::resetValueId"),
          ("utilities.cpp", "areEqual(std::string const&, std::string const&)")]
MATCHING = [("entity.cpp", "Entity::doEquals"), ("entity.cpp", "Entity::equals"), ("entity.cpp", "Entity::id"),
            ("namedentity.cpp", "NamedEntity::doEquals"), ("namedentity.cpp", "NamedEntity::name"),
            ("importedentity.cpp", "ImportedEntity::doEquals"), ("importedentity.cpp", "ImportedEntity::isImport"),
            ("importedentity.cpp", "ImportedEntity::importSource"), ("importedentity.cpp", "ImportedEntity::importReference"),
            ("utilities.cpp", "areEqual(std::string const&, std::string const&)"),
            ("units.cpp", "Units::doEquals"), ("utilities.cpp", "equalEntities"),
            ("component.cpp", "Component::ComponentImpl::equalVariables"), ("component.cpp", "Component::ComponentImpl::equalResets"),
            ("model.cpp", "Model::ModelImpl::equalUnits"),
            ("componententity.cpp", "ComponentEntity::doEquals"), ("component.cpp", "Component::doEquals"), ("model.cpp", "Model::doEquals"),
            ("componententity.cpp", "ComponentEntity::containsComponent(std::shared_ptr<libcellml::Component> const&, bool) const"),
            ("componententity.cpp", "ComponentEntity::ComponentEntityImpl::findComponent(std::shared_ptr<libcellml::Component> const&) const"),
            ("componententity.cpp", "ComponentEntity::component(unsigned long) const"), ("componententity.cpp", "ComponentEntity::componentCount"),
            ("componententity.cpp", "ComponentEntity::encapsulationId"),
            ("component.cpp", "Component::variable(unsigned long) const"), ("component.cpp", "Component::reset(unsigned long) const"),
            ("model.cpp", "Model::units(unsigned long) const"), ("units.cpp", "Units::unitCount"),
            ("units.cpp", "Units::unitAttributes(unsigned long, std::string&, std::string&, double&, double&, std::string&) const"),
            ("utilities.cpp", "areNearlyEqual"), ("utilities.cpp", "ulpsDistance"), ("component.cpp", "Component::math")]


def main(argv):
    c = Check("C10", "other")
    c.parse_args(argv)
    scalar = UnitSpec("scalar", sorted(set(t for t, _ in SCALAR)), [(t, "libcellml::" + f) for t, f in SCALAR], string_model="sid",
                      models=("exact.h", "sidstr.h"), spec_header="specs/C10/spec.h", harness_file="specs/C10/harness_scalar.c")
    matching = UnitSpec("matching", sorted(set(t for t, _ in MATCHING)), [(t, "libcellml::" + f) for t, f in MATCHING], string_model="sid",
                        models=("exact.h", "sidstr.h"), spec_header="specs/C10/spec.h", harness_file="specs/C10/harness_matching.c")
    c.units = [scalar, matching]
    n = 2 if c.tier == "quick" else 3
    DS = {"HEAP_N": 8, "REF_T": "unsigned"}
    UWS = ["--unwindset", "init.0:10,havoc_heap.0:10,havoc_heap.1:10,havoc_heap.2:10,havoc_heap.3:10,havoc_heap.4:10,havoc_heap.5:10"]
    for cls, what in (("Entity", "id"), ("NamedEntity", "id, name"), ("ImportSource", "id, url"),
                      ("Variable", "id, name, initial value, interface type, units"),
                      ("Reset", "id, order, test/reset values and their ids, variable and test variable"),
                      ("ImportedEntity", "import reference and import source")):
        c.harnesses.append(("scalar", Harness("h_%s_relational" % cls, "F", defines=DS, unwind=10, backend="sat", timeout=600,
                                              carries="%s: reflexive, symmetric, transitive, false on null / other class, "
                                                      "and equal => same %s (complete: loop-free over all field values)" % (cls, what))))
    c.harnesses.append(("matching", Harness("h_areNearlyEqual", "F", defines=dict(DS, H_FP=1, MAXN=n), backend="sat", timeout=600,
                                            carries="unit exponents/multipliers: areNearlyEqual symmetric, reflexive on non-NaN, true on "
                                                    "identical values - over ALL pairs of doubles (complete)")))
    variants = [("Component", "variables", 1), ("Component", "resets", 2), ("Component", "components", 3),
                ("Model", "units", 1), ("Model", "components", 3), ("Units", "unit", 0)]
    for cls, kind, vary in variants:
        D = dict(DS, VVEC_CAP=n + 1, MAXN=n, VARY=vary)
        D["H_" + cls.upper()] = 1
        name = "h_%s_matching_%s" % (cls, kind) if cls != "Units" else "h_Units_matching"
        D["H_NAME"] = name
        c.harnesses.append(("matching", Harness(name, "B", defines=D, unwind=n + 2, backend="sat",
                                                timeout=2400 if c.tier == "thorough" else 1500,
                                                bound="child list of %s <= %d entries (other child kinds empty), children compared by an arbitrary equivalence" % (kind, n),
                                                carries="%s vs its %s: symmetric, reflexive, ignores child order, false when the numbers of children "
                                                        "differ, equal exactly when attributes and child multisets agree - BOUNDED" % (cls, kind))))
    c.trusted_base = [
        "virtual equals() of child objects is an arbitrary equivalence relation (kernel of a class function), false on null and "
        "across dynamic types: the inductive hypothesis over the depth of the object tree",
        "strings as identities (equal iff same id): exact for code that only assigns and compares strings",
        "exact bounded std::vector model; canonical object ids (symmetry)",
        "unit exponents/multipliers in the matching harness range over a few well-separated values (the property excludes values "
        "within 1 ulp); areNearlyEqual itself is decided over all doubles",
    ]
    c.explanation = ("Relational harnesses (each calls the lowered doEquals chain two or three times) over C lowered from entity.cpp, "
                     "namedentity.cpp, importsource.cpp, importedentity.cpp, variable.cpp, reset.cpp, units.cpp, componententity.cpp, "
                     "component.cpp, model.cpp, utilities.cpp. The scalar classes and the FP helper are loop-free: complete decisions. "
                     "The child-matching loops (equalEntities, Units::doEquals, containsComponent) are BOUNDED by the list length.")
    c.not_covered = ["child lists longer than the bound", "the std::map-based id maps of variables (mapping/connection ids are not part of equality)"]
    exe = {}

    def native(chk):
        d = chk.built["scalar"].dir
        exe["x"] = os.path.join(d, "c10_native")
        nativelib.compile_driver(os.path.join(VERIF, "replay/C10_native.cpp"), exe["x"])
        rc, out, err, _ = run([exe["x"], "fuzz", str(chk.seed), "5000" if chk.tier == "quick" else "100000"], timeout=900)
        m = re.search(r"FUZZ pairs=(\d+) equal_pairs=(\d+) not_reflexive=(\d+) asymmetric=(\d+) not_transitive=(\d+)", out)
        if not m:
            raise Undecided("native equals() fuzz did not run: rc=%s %s" % (rc, (out + err)[-300:]))
        chk.native_facts.append(("native random entities: reflexive / transitive (asymmetric pairs are the known size finding)",
                                 m.group(3) == "0" and m.group(5) == "0", out.strip()[-300:]))

    c.pre_steps = [native]

    def replay(chk, h, o, ce):
        desc = o.get("desc", "")
        m = re.search(r"(Component|Model|Units): different numbers of (variables|resets|child components|units|components|unit children)", desc)
        if not m and "components" in h.name and ("symmetric" in desc or "child multisets" in desc):
            rc, out, err, _ = run([exe["x"], "dupchild", "component" if "Component" in h.name else "model"], timeout=60)
            mm = re.search(r"violates=(\d)", out)
            if mm:
                return mm.group(1) == "1", out.strip(), "child-components-set-containment", {}
        if not m:
            return None, "no native replay for this obligation (counterexample: %s)" % ce, None, {}
        kind = {("Component", "variables"): ("component-variables", "ce_nva", "ce_nvb"),
                ("Component", "resets"): ("component-resets", "ce_nra", "ce_nrb"),
                ("Component", "child components"): ("component-components", "ce_nca", "ce_ncb"),
                ("Model", "units"): ("model-units", "ce_nua", "ce_nub"),
                ("Model", "components"): ("model-components", "ce_nca", "ce_ncb"),
                ("Units", "unit children"): ("units-unit", "ce_na", "ce_nb")}[(m.group(1), m.group(2))]
        na, nb = ce.get(kind[1]), ce.get(kind[2])
        if na is None or nb is None:
            return None, "counterexample carries no sizes", None, {}
        rc, out, err, _ = run([exe["x"], "sizes", kind[0], str(na), str(nb)], timeout=60)
        mm = re.search(r"violates=(\d)", out)
        if not mm:
            return None, "replay failed: " + (out + err)[-200:], None, {}
        return mm.group(1) == "1", out.strip(), "size-mismatch:" + kind[0], {"na": na, "nb": nb}

    c.replayers["*"] = replay
    if getattr(c, "replay_file", None):
        import json
        r = json.load(open(c.replay_file))
        print(json.dumps({k: r.get(k) for k in ("failed_obligation", "counterexample", "replayed_on_real_code", "replay_detail")}, indent=1))
        return 0
    rc = c.run()
    if getattr(c, "write_baseline", False):
        c.write_baseline_file()
    return rc


if __name__ == "__main__":
    sys.exit(main(sys.argv[1:]))
