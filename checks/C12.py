#!/usr/bin/env python3
"""C12 - operations are pure: issue list reset, no hidden per-call state, libxml2 global state (effect slices)."""
import os
import re
import sys

sys.path.insert(0, os.path.join(os.path.dirname(os.path.abspath(__file__)), "..", "tools"))
import cast
import engine
import nativelib
import slicer
from common import SRC, VERIF, Undecided, log, run
from engine import Harness
from propcheck import Check

# service entry points whose call must start from an empty issue list (from the property text)
ISSUE_ENTRIES = {"validator.cpp": ["S_Validator_validateModel"], "parser.cpp": ["S_Parser_parseModel"], "analyser.cpp": ["S_Analyser_analyseModel"],
                 "importer.cpp": ["S_Importer_resolveImports", "S_Importer_flattenModel"]}
# public entry points checked for hidden state / global state
STATE_ENTRIES = {"validator.cpp": ["S_Validator_validateModel"], "analyser.cpp": ["S_Analyser_analyseModel"], "parser.cpp": ["S_Parser_parseModel"],
                 "importer.cpp": ["S_Importer_resolveImports", "S_Importer_flattenModel"], "printer.cpp": ["S_Printer_printModel"]}
# documented state of the service objects: not scratch
DOCUMENTED_STATE = {
    "mLibrary": "Importer: the library of resolved models is the documented, user-visible state of the importer (library(), addModel(), ...)",
    "mImports": "Importer: the list of import sources added by the user (addImportSource(), importSource(i))",
    "mExternalVariables": "Analyser: external variables registered by the user (addExternalVariable(), ...)",
    "mStandardUnits": "Analyser: memo of standard Units objects created on demand, keyed by the standard unit's name; the value is a function of the key "
                      "(idempotent cache, benign by inspection - recorded as an assumption)",
    "mIssues": "Logger: the issue list itself (obligation 1 covers its reset)", "mErrors": "Logger index", "mWarnings": "Logger index", "mMessages": "Logger index",
}
# the implementation record of the service object of each TU (objects of other records are created per call)
SERVICE_IMPL = {"validator.cpp": "Validator::ValidatorImpl", "analyser.cpp": "Analyser::AnalyserImpl", "parser.cpp": "Parser::ParserImpl",
                "importer.cpp": "Importer::ImporterImpl", "printer.cpp": "Printer::PrinterImpl"}
XML = ("xmlKeepBlanksDefault", "xmlSetStructuredErrorFunc", "xmlInitParser", "xmlCleanupParser", "xmlSubstituteEntitiesDefault")
CONTAINER = re.compile(r"std::(vector|map|multimap|set|multiset|unordered_map|unordered_set|list|deque)<|^(?:libcellml::)?\w*(Ptrs|List|Map|Stack|Library)\b")


# static-storage variables that are not hidden per-call state (read from the AST of every TU; anything else is an obligation failure)
STATIC_ALLOW = {
    ("xmldoc.cpp", "mathMLDTD"): "XmlDoc::parseMathML: the decompressed MathML DTD, a constant computed once (independent of every argument)",
    ("debug.cpp", "generatorProfile"): "debug.cpp: developer print helpers, not reachable from any service entry point",
}


def static_state_scan():
    """Every variable with static storage duration and a non-const type declared in namespace libcellml (function-local statics,
    namespace-scope variables, static data members) in every src/*.cpp: [(tu, enclosing decl, name, type, line)].  Text AST dump."""
    import concurrent.futures
    from common import GUARD, include_flags
    tus = sorted(f for f in os.listdir(SRC) if f.endswith(".cpp"))

    def one(tu):
        rc, out, err, _ = run(["clang++", "-std=c++17", "-fsyntax-only", "-D" + GUARD, "-w"] + include_flags() +
                              ["-Xclang", "-ast-dump", "-Xclang", "-ast-dump-filter=libcellml::", os.path.join(SRC, tu)], timeout=600)
        if rc != 0:
            raise Undecided("extraction: clang could not read %s: %s" % (tu, err[-500:]))
        found, owner, nsec = [], "", 0
        for l in out.splitlines():
            m = re.match(r"Dumping (libcellml::.*):$", l)
            if m:
                owner = m.group(1)
                nsec += 1
                continue
            if "VarDecl" not in l or "ParmVarDecl" in l:
                continue
            m = re.match(r"^([|` -]*)VarDecl 0x[0-9a-f]+ <([^>]*)> (?:col:\d+|line:\d+:\d+)(?: (?:implicit|used|referenced|invalid))* (\w+) '([^']*)'(?::'[^']*')?(.*)$", l)
            if not m:
                continue
            depth, loc, name, ty, rest = m.groups()
            top = depth == ""
            if not top and not re.search(r"\bstatic\b", rest):
                continue                    # automatic local
            if re.search(r"\b(constexpr)\b", rest) or (ty.startswith("const ") and not ty.rstrip().endswith("*")) or ty.rstrip().endswith("*const"):
                continue
            if top and re.search(r"\bextern\b", rest):
                continue
            lm = re.search(r"(/[^:>]+):(\d+)", loc)
            if lm and not lm.group(1).startswith(SRC):
                continue                    # a system header's variable
            found.append((tu, owner, name, ty, loc))
        if nsec == 0:
            raise Undecided("extraction: no libcellml:: declaration dumped for %s" % tu)
        return found
    with concurrent.futures.ThreadPoolExecutor(14) as ex:
        res = list(ex.map(one, tus))
    return len(tus), sorted(set(x for r in res for x in r))


def walk(n):
    yield n
    for c in n.get("inner", []):
        if isinstance(c, dict):
            yield from walk(c)


def main(argv):
    c = Check("C12", "other")
    c.parse_args(argv)
    wd = engine.work_dir("C12")
    exe = {}
    tus = sorted(set(list(ISSUE_ENTRIES) + list(STATE_ENTRIES)))

    def build(chk):
        total_eff = 0
        for tuname in tus:
            tu = cast.load_tu(tuname)
            # container-typed data members of the *Impl records defined in this TU
            scratch = {}
            for rid, q in tu.records.items():
                rec = tu.by_id[rid]
                # (an out-of-line definition of a nested class is dumped at namespace level: compare the last component)
                if q.split("::")[-1] != SERVICE_IMPL.get(tuname, "Impl").split("::")[-1] or not (cast.node_loc(rec)[0] or "").endswith(tuname) and "_p.h" not in (cast.node_loc(rec)[0] or ""):
                    continue
                for f in rec.get("inner", []):
                    if f.get("kind") == "FieldDecl" and re.match(r"m[A-Z]", f.get("name", "")):
                        ty = f["type"].get("desugaredQualType") or f["type"].get("qualType", "")
                        if CONTAINER.search(ty) or CONTAINER.search(f["type"].get("qualType", "")):
                            if f["name"] not in DOCUMENTED_STATE:
                                scratch[f["name"]] = ty

            def field_any(f, member, scratch=scratch):
                if f not in scratch:
                    return None
                if member == "clear":
                    return "reset__" + f
                if member == "=":
                    return "reset__" + f          # assigned afresh
                return "use__" + f

            def functions(name, text):
                if name == "xmlKeepBlanksDefault":
                    return "xml_keepblanks_0" if re.search(r"\(\s*0\s*\)", text) else "xml_keepblanks_1"
                return "xml_other" if name in XML else None

            vocab = slicer.Vocabulary(methods=[(r"removeAllIssues", "issues_cleared"), (r"addIssue\w*", "issue_added")],
                                      field_any=field_any, functions=functions)
            s = slicer.Slicer(tu, vocab)
            text, eff, used = s.run()
            total_eff += len(eff)
            entries = sorted(set(ISSUE_ENTRIES.get(tuname, []) + STATE_ENTRIES.get(tuname, [])))
            for e in entries:
                if e not in eff:
                    raise Undecided("extraction: entry point %s not found among the effect slices of %s (renamed?)" % (e, tuname))
            flags = sorted(scratch)
            d = os.path.join(wd, tuname.replace(".", "_"))
            os.makedirs(d, exist_ok=True)
            pre = ["static bool reset_%s;" % f for f in flags]
            pre.append("#define SCRATCH_FLAGS %s" % (", ".join("reset_%s" % f for f in flags) if flags else "cleared"))
            pre.append("#define SCRATCH_INV %s" % "".join(" && (__CPROVER_loop_entry(reset_%s) ==> reset_%s)" % (f, f) for f in flags))
            # a TU that never touches the libxml2 global keeps it unchanged in every loop; printer.cpp does touch it
            pre.append("#define KB_INV %s" % ("" if any(u.startswith("xml_keepblanks") for u in used) else " && (__CPROVER_loop_entry(keepBlanks) == keepBlanks)"))
            eff_defs = []
            for f in flags:
                eff_defs.append("static void E_reset__%s(void) { reset_%s = 1; }" % (f, f))
                eff_defs.append("static void E_use__%s(void) { __CPROVER_assert(reset_%s, \"hidden state: container member %s is read or extended before this call has reset it (left over from an earlier call)\"); }" % (f, f, f))
            harness = []
            for e in entries:
                body = ["    cleared = 0; keepBlanks = 1; track_issues = %d;" % (1 if e in ISSUE_ENTRIES.get(tuname, []) else 0)] + ["    reset_%s = 0;" % f for f in flags] + ["    %s();" % e]
                if e in ISSUE_ENTRIES.get(tuname, []):
                    body.append("    __CPROVER_assert(cleared, \"%s: each call starts from an empty issue list (removeAllIssues() on every path)\");" % e[2:])
                if e in STATE_ENTRIES.get(tuname, []):
                    body.append("    __CPROVER_assert(keepBlanks == 1, \"%s: libxml2's process-global xmlKeepBlanksDefault is left at its default\");" % e[2:])
                harness.append("void h_%s(void)\n{\n%s\n#ifdef CANARY\n    __CPROVER_assert(0, \"CANARY reachable\");\n#endif\n}\n" % (e[2:], "\n".join(body)))
            unit = ('#include "%s"\n#include <stdbool.h>\nbool nondet_bool(void);\nint nondet_int(void);\n%s\n#include "%s"\n%s\n%s\n%s\n' % (
                os.path.join(VERIF, "models/base.h"), "\n".join(pre), os.path.join(VERIF, "specs/C12/effects.h"), "\n".join(eff_defs), text, "\n".join(harness)))
            b = engine.Built()
            b.dir = d
            b.unit_c = os.path.join(d, "unit.c")
            b.text = unit
            b.lowered_text = text
            open(b.unit_c, "w").write(unit)

            class _L:
                funcs = {}
            b.lowered = _L()
            chk.built[tuname] = b
            for e in entries:
                h = Harness("h_" + e[2:], "F", defines={}, unwind=2, loop_contracts=True, backend="sat", timeout=900, object_bits=14,
                            carries="%s: issue list reset first; no container member of the service used before it is reset in the same call "
                                    "(%d tracked: %s); xmlKeepBlanksDefault restored" % (e[2:].replace("_", "::", 1), len(flags), ", ".join(flags) or "none"))
                h.no_unwinding_assertions = True
                chk.harnesses.append((tuname, h))
            chk.functions_under_contract += [{"function": cn[2:], "lowered_as": cn, "file": "/repo/src/" + tuname, "lines": [], "loops": 0, "text_sha256": ""} for cn in eff]
            chk.extra_cov.setdefault("scratch_members_tracked", {})[tuname] = flags
        chk.extra_cov["effect_slices"] = total_eff
        # frame fact over the whole library: no mutable static-storage state (function-local statics, namespace-scope variables)
        ntu, statics = static_state_scan()
        bad = [x for x in statics if (x[0], x[2]) not in STATIC_ALLOW]
        chk.extra_cov["static_storage_scan"] = {"translation_units": ntu, "mutable_static_variables": [list(x) for x in statics],
                                                "allow_list": {"%s:%s" % k: v for k, v in STATIC_ALLOW.items()}}
        chk.native_facts.append(("AST of all %d src/*.cpp: no mutable static-storage variable in namespace libcellml besides the allow-list "
                                 "(state that would survive a call and be shared by every instance)" % ntu, not bad, "; ".join("%s %s::%s" % (x[0], x[1], x[2]) for x in statics)))
        for tu_, owner, name, ty, loc in bad:
            from common import OUTROOT, write_json
            path = os.path.join(OUTROOT, "out", "replay", "C12", "static_state__%s__%s.json" % (tu_.replace(".", "_"), name))
            what = ("hidden state: %s declares the static-storage variable '%s' of mutable type %s (%s); it survives the call and is shared by every "
                    "service instance in the process, so a result can depend on earlier calls" % (owner, name, ty, tu_))
            write_json(path, {"property": "C12", "failed_obligation": {"id": "static_state.%s.%s" % (tu_, name), "class": "frame", "function": owner, "desc": what,
                                                                      "file": os.path.join(SRC, tu_), "line": loc},
                              "counterexample": {}, "replayed_on_real_code": None,
                              "verifier_output": "clang AST: VarDecl %s '%s' static, non-const, in %s" % (name, ty, owner),
                              "how_to_rerun": "cd /verif && ./check C12 quick"})
            chk.violations.append((what, path, " no-failing-input-found"))
        chk.extra_cov["documented_state_allow_list"] = DOCUMENTED_STATE
        d0 = os.path.join(wd, "native")
        os.makedirs(d0, exist_ok=True)
        exe["x"] = os.path.join(d0, "c12_native")
        nativelib.compile_driver(os.path.join(VERIF, "replay/C12_native.cpp"), exe["x"])
        rc, out, err, _ = run([exe["x"]], timeout=300)
        chk.native_out = (out + err).strip()
        m = re.search(r"KEEPBLANKS leak=(\d)", out)
        chk.native_facts.append(("native: parse S, print any model, parse S again - same model? (libxml2 keep-blanks leak)", bool(m and m.group(1) == "0"), out.strip()[-300:]))
        m2 = re.search(r"REUSE violates=(\d)", out)
        chk.native_facts.append(("native: second call on the same Validator/Analyser instance gives what a fresh instance gives", bool(m2 and m2.group(1) == "0"), ""))

    c.pre_steps = [build]
    c.trusted_base = [
        "effect slices (tools/slicer.py): conditions nondeterministic, data dropped; loops carry one loop contract, recursion is summarised as effect-free for these flags",
        "the allow-list of documented object state in checks/C12.py",
        "libxml2's xmlKeepBlanksDefault(v) sets a process-global to v (taken from its documentation); its default is 1",
        "container members are recognised by their declared type (std containers and the library's *Ptrs/*List/*Map aliases)",
        "static-storage allow-list in checks/C12.py (mathMLDTD constant memo; debug.cpp helper)",
    ]
    c.explanation = ("Frame/typestate obligations over mechanically extracted effect slices of validator.cpp, parser.cpp, analyser.cpp, importer.cpp, printer.cpp: "
                     "issue list emptied before anything is added and on every path; container members of the service object reset before use in the same "
                     "call unless documented state; xmlKeepBlanksDefault left at its default. Complete for the finite abstraction. 'The input model is not "
                     "mutated' and 'same result on a fresh instance' for data the abstraction drops are NOT decided.")
    c.not_covered = ["mutation of the input model (const-correctness is not checked here)", "scalar members of the service objects", "Generator"]

    def replay(chk, h, o, ce):
        out = getattr(chk, "native_out", "")
        if "xmlKeepBlanksDefault" in o.get("desc", ""):
            m = re.search(r"KEEPBLANKS leak=(\d)(.*)", out)
            if m:
                return m.group(1) == "1", "parse-print-parse on the real code: " + m.group(2).strip()[:300], "keepblanks-leak:" + h.name, {"out": out[:600]}
        if "hidden state" in o.get("desc", ""):
            m = re.search(r"REUSE violates=(\d)(.*)", out)
            if m and m.group(1) == "1":
                return True, "second call on the same instance differs from a fresh instance: " + m.group(2).strip()[:300], "reuse", {"out": out[:600]}
        return None, "no native scenario reproduces this obligation", None, {"out": out[:400]}

    c.replayers["*"] = replay
    if getattr(c, "replay_file", None):
        import json
        r = json.load(open(c.replay_file))
        print(json.dumps({k: r.get(k) for k in ("failed_obligation", "counterexample", "replayed_on_real_code", "replay_detail")}, indent=1))
        return 0
    rc = c.run()
    if getattr(c, "write_baseline", False):
        c.write_baseline_file()
    return rc


if __name__ == "__main__":
    sys.exit(main(sys.argv[1:]))
