#!/usr/bin/env python3
"""C15 - issue reporting is coherent (logger invariant, accessors, rule table)."""
import os
import re
import sys

sys.path.insert(0, os.path.join(os.path.dirname(os.path.abspath(__file__)), "..", "tools"))
import cast
import engine
import nativelib
from common import SRC, VERIF, Undecided, log, run
from engine import Harness, UnitSpec
from propcheck import Check

LOGGER_FNS = ["Logger::LoggerImpl::addIssue", "Logger::LoggerImpl::removeError", "Logger::LoggerImpl::removeAllIssues",
              "Logger::errorCount", "Logger::error", "Logger::warningCount", "Logger::warning", "Logger::messageCount",
              "Logger::message", "Logger::issueCount", "Logger::issue"]


def walk(n):
    yield n
    for c in n.get("inner", []):
        if isinstance(c, dict):
            yield from walk(c)


def main(argv):
    c = Check("C15", "proof")
    c.parse_args(argv)
    unit = UnitSpec("logger", ["logger.cpp", "issue.cpp"],
                    [("logger.cpp", "libcellml::" + f) for f in LOGGER_FNS] + [("issue.cpp", "libcellml::Issue::level")],
                    string_model="sid", models=("pointwise.h",), spec_header="specs/C15/spec.h",
                    harness_file="specs/C15/harness.c")
    c.units = [unit]
    D = {"HEAP_N": 8, "PW_CAP": 1048576, "PW_NO_H": 1}

    def H(name, enforce, carries):
        return ("logger", Harness("h_" + name, "U", enforce=enforce, defines=D, backend="z3", timeout=600, carries=carries))
    c.harnesses = [
        H("addIssue_error", "Logger_LoggerImpl_addIssue", "adding an ERROR keeps the list/level-index invariant; only the error index list grows, by the new index"),
        H("addIssue_warning", "Logger_LoggerImpl_addIssue", "same for a WARNING"),
        H("addIssue_message", "Logger_LoggerImpl_addIssue", "same for a MESSAGE (default branch)"),
        H("removeAllIssues", "Logger_LoggerImpl_removeAllIssues", "each call starts from an empty, coherent issue list"),
        H("removeError", "Logger_LoggerImpl_removeError", "removing the last issue (an error) keeps every other entry in place"),
        H("issueCount", "Logger_issueCount", "issueCount() == errorCount()+warningCount()+messageCount()"),
        H("errorCount", "Logger_errorCount", "errorCount() is the length of the error index list"),
        H("warningCount", "Logger_warningCount", "warningCount()"),
        H("messageCount", "Logger_messageCount", "messageCount()"),
        H("issue", "Logger_issue", "issue(i): i-th issue, null when out of range"),
        H("error", "Logger_error", "error(i): an issue of level ERROR from the list, in order; null when out of range; no .at() can throw"),
        H("warning", "Logger_warning", "warning(i) likewise"),
        H("message", "Logger_message", "message(i) likewise"),
    ]
    c.trusted_base = [
        "pointwise copy-on-write std::vector model (models/pointwise.h): structural mutations constrained at the ghost indices only",
        "object ids fixed to canonical constants in the harnesses (lowered code is invariant under renaming of object ids)",
        "containers hold fewer than 2^20 elements; allocation never fails",
        "pigeonhole step: count equation + in-range + right level + strictly increasing  ==>  'enumerates exactly the issues "
        "of that level' (argued in DESIGN 3/C15, cross-checked natively by the history simulation, not by CBMC)",
    ]
    c.explanation = ("Unbounded modular proofs (no unwinding: the lowered logger code is loop-free over the pointwise vector model) of the "
                     "representation invariant of Logger::LoggerImpl for every mutator and of every accessor's contract, enforced with "
                     "goto-instrument --dfcc, decided by z3 (QF_AUFBV). ReferenceRule table completeness is a finite AST comparison "
                     "confirmed natively for every enumerator.")
    c.not_covered = ["'a failing result is always explained' for parseModel/analyseModel/resolveImports (callers not lowered)",
                     "AnyCellmlElement typed accessors vs stored std::any (types.cpp) - not lowered yet",
                     "the two removeError call sites in importer.cpp establishing its precondition - not lowered yet"]
    exe = {}

    def native(chk):
        d = chk.built["logger"].dir
        exe["x"] = os.path.join(d, "c15_native")
        nativelib.compile_driver(os.path.join(VERIF, "replay/C15_native.cpp"), exe["x"])
        rc, out, err, _ = run([exe["x"], "sim", str(chk.seed), "20000" if chk.tier == "quick" else "300000"], timeout=600)
        m = re.search(r"SIM violates=(\d)", out)
        if not m and rc not in (0, -9):
            out = "SIM violates=1 history=(crash) why=the real code terminated abnormally rc=%s %s" % (rc, (err or "")[-200:].replace("\n", " "))
            m = re.search(r"SIM violates=(\d)", out)
        if not m:
            raise Undecided("native logger simulation did not run: rc=%s %s" % (rc, (out + err)[-300:]))
        chk.native_facts.append(("random histories on the real Logger::LoggerImpl agree with an independent shadow list", m.group(1) == "0", out.strip()[-200:]))
        chk.sim_out = out.strip()
        # ReferenceRule table: every enumerator is a key with >= 4 strings (finite, complete; from the AST)
        tu = cast.load_tu("issue.cpp")
        enum_n = None
        for dcl in tu.decls:
            for n in walk(dcl):
                if n.get("kind") == "EnumDecl" and n.get("name") == "ReferenceRule":
                    enum_n = [x["name"] for x in n.get("inner", []) if x.get("kind") == "EnumConstantDecl"]
        if not enum_n:
            raise Undecided("ReferenceRule enum not found in the AST of issue.cpp")
        rc, out, err, _ = run([exe["x"], "rules", str(len(enum_n) - 1)], timeout=60)
        m = re.search(r"RULES checked=(\d+) ok=(\d+) bad=(\d+)", out)
        if not m:
            raise Undecided("rule table run failed: rc=%s %s" % (rc, (out + err)[-300:]))
        chk.extra_cov["reference_rules_checked"] = int(m.group(1))
        chk.native_facts.append(("referenceHeading()/url() retrievable for every ReferenceRule enumerator (%d, read from the AST)" % len(enum_n),
                                 m.group(3) == "0", out.strip()[-300:]))
        if m.group(3) != "0":
            path = os.path.join(VERIF, "out", "replay", "C15", "rule_table.json")
            from common import write_json
            write_json(path, {"property": "C15", "failed_obligation": "every ReferenceRule value has a heading and URL (map::at must not throw)",
                              "output": out, "how_to_rerun": "%s rules %d" % (exe["x"], len(enum_n) - 1)})
            chk.violations.append(("ReferenceRule table incomplete: " + out.strip()[-300:], path, ""))

    c.pre_steps = [native]

    def replay(chk, h, o, ce):
        out = getattr(chk, "sim_out", "")
        m = re.search(r"SIM violates=1 history=(\S+) why=(.*)", out)
        if m:
            return True, "real Logger after history %s: %s" % (m.group(1), m.group(2)), "history=" + m.group(1), {"sim": out}
        return None, "the random-history simulation on the real code found no incoherent logger state (seed %d)" % chk.seed, None, {"sim": out, "ghost": ce}

    c.replayers["*"] = replay
    if getattr(c, "replay_file", None):
        import json
        r = json.load(open(c.replay_file))
        print(json.dumps({k: r.get(k) for k in ("failed_obligation", "counterexample", "replayed_on_real_code", "replay_detail")}, indent=1))
        return 0
    rc = c.run()
    if getattr(c, "write_baseline", False):
        c.write_baseline_file()
    return rc


if __name__ == "__main__":
    sys.exit(main(sys.argv[1:]))
