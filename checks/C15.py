#!/usr/bin/env python3
"""C15 - issue reporting is coherent (logger invariant, accessors, rule table)."""
import os
import re
import sys

sys.path.insert(0, os.path.join(os.path.dirname(os.path.abspath(__file__)), "..", "tools"))
import cast
import engine
import nativelib
from common import OUTROOT, SRC, VERIF, Undecided, log, run
from engine import Harness, UnitSpec
from propcheck import Check

LOGGER_FNS = ["Logger::LoggerImpl::addIssue", "Logger::LoggerImpl::removeError", "Logger::LoggerImpl::removeAllIssues",
              "Logger::errorCount", "Logger::error", "Logger::warningCount", "Logger::warning", "Logger::messageCount",
              "Logger::message", "Logger::issueCount", "Logger::issue"]


def walk(n):
    yield n
    for c in n.get("inner", []):
        if isinstance(c, dict):
            yield from walk(c)


def main(argv):
    c = Check("C15", "proof")
    c.parse_args(argv)
    unit = UnitSpec("logger", ["logger.cpp", "issue.cpp"],
                    [("logger.cpp", "libcellml::" + f) for f in LOGGER_FNS] + [("issue.cpp", "libcellml::Issue::level")],
                    string_model="sid", models=("pointwise.h",), spec_header="specs/C15/spec.h",
                    harness_file="specs/C15/harness.c")
    IMP = ["fetchModel", "fetchImportSource", "fetchComponent", "fetchUnits"]
    imp = UnitSpec("importer", ["importer.cpp"], [("importer.cpp", "libcellml::Importer::ImporterImpl::" + f) for f in IMP],
                   string_model="sid", models=("countonly.h", "pointwise.h"), spec_header="specs/C15/importer.h",
                   harness_file="specs/C15/importer_harness.c",
                   rec_stubs=["Importer_ImporterImpl_fetchComponent", "Importer_ImporterImpl_fetchUnits"])
    look = UnitSpec("lookup", ["annotator.cpp"], [("annotator.cpp", "libcellml::Annotator::AnnotatorImpl::exists"),
                                                   ("annotator.cpp", "libcellml::Annotator::item(std::string const&)"),
                                                   ("annotator.cpp", "libcellml::Annotator::item(std::string const&, unsigned long)")],
                    string_model="sid", models=("countonly.h", "pointwise.h"), spec_header="specs/C15/lookup.h", harness_file="specs/C15/lookup_harness.c")
    c.units = [unit, imp, look]
    DL = {"HEAP_N": 8, "PW_CAP": 1048576, "PW_NO_H": 1, "VEC_VAL_OK(v)": "((v)!=0&&(v)<6)"}
    lstubs = sorted(set(m.group(1) for m in re.finditer(r"^#define __FC_(\w+)", open(os.path.join(VERIF, "specs/C15/lookup.h")).read(), re.M)))

    def HL(name, enforce, carries):
        return ("lookup", Harness("h_" + name, "U", enforce=enforce, replace=[x for x in lstubs if x != enforce], defines=DL, backend="sat", timeout=600, carries=carries))
    D = {"HEAP_N": 8, "PW_CAP": 1048576, "PW_NO_H": 1}
    DI = {"HEAP_N": 16, "PW_CAP": 1048576, "PW_NO_H": 1, "VMAP_VAL_OK(v)": "((v)<8)", "VEC_VAL_OK(v)": "((v)<8)"}
    stubs = sorted(set(m.group(1) for m in re.finditer(r"^#define __FC_(\w+)", open(os.path.join(VERIF, "specs/C15/importer.h")).read(), re.M)))
    stubs += ["Importer_ImporterImpl_fetchUnits__rec", "Importer_ImporterImpl_fetchComponent__rec"]

    def HI(name, carries):
        enforce = "Importer_ImporterImpl_" + name
        return ("importer", Harness("h_" + name, "U", enforce=enforce, replace=[x for x in stubs if x != enforce], defines=DI, backend="sat",
                                    timeout=1500, loop_contracts=True, object_bits=13, mem_gb=40, carries=carries))

    def H(name, enforce, carries):
        return ("logger", Harness("h_" + name, "U", enforce=enforce, defines=D, backend="z3|cvc5", timeout=900, carries=carries))
    c.harnesses = [
        H("addIssue_error", "Logger_LoggerImpl_addIssue", "adding an ERROR keeps the list/level-index invariant; only the error index list grows, by the new index; TAIL(t) becomes TAIL(t+1)"),
        H("addIssue_warning", "Logger_LoggerImpl_addIssue", "same for a WARNING"),
        H("addIssue_message", "Logger_LoggerImpl_addIssue", "same for a MESSAGE (default branch)"),
        H("removeAllIssues", "Logger_LoggerImpl_removeAllIssues", "each call starts from an empty, coherent issue list"),
        H("removeError", "Logger_LoggerImpl_removeError", "removeError(last error) when the last t >= 1 errors are the last t issues (TAIL): coherent afterwards, TAIL(t-1), every other entry in place"),
        H("level_frame", None, "lemma: changing the level of an issue that is not listed keeps the logger coherent (setLevel before addIssue)"),
        HI("fetchModel", "importer.cpp fetchModel: a false result is explained; THE ERRORS FORWARDED FROM THE PARSER ARE THE LAST ISSUES OF THE LIST (what the removeError loops need); "
                         "levels are set only on issues not yet listed; parser->message(0) exists when used"),
        HI("fetchImportSource", "importer.cpp fetchImportSource: same contract as fetchModel (caller of it)"),
        HI("fetchComponent", "importer.cpp fetchComponent: every removeError call deletes the last issue (precondition of removeError at the call site, every iteration); false is explained; recursion and fetchUnits by contract"),
        HI("fetchUnits", "importer.cpp fetchUnits: likewise"),
        HL("exists", "Annotator_AnnotatorImpl_exists", "annotator.cpp exists(id, index, unique): true only if item number `index` with that identifier exists (exactly one when unique); false comes with an issue"),
        HL("item", "Annotator_item__s", "Annotator::item(id): an item carrying the id, or the UNDEFINED item together with an issue (all typed unique lookups go through it)"),
        HL("item_index", "Annotator_item__s_sz", "Annotator::item(id, index): likewise, and items(id) is never indexed out of range"),
        H("issueCount", "Logger_issueCount", "issueCount() == errorCount()+warningCount()+messageCount()"),
        H("errorCount", "Logger_errorCount", "errorCount() is the length of the error index list"),
        H("warningCount", "Logger_warningCount", "warningCount()"),
        H("messageCount", "Logger_messageCount", "messageCount()"),
        H("issue", "Logger_issue", "issue(i): i-th issue, null when out of range"),
        H("error", "Logger_error", "error(i): an issue of level ERROR from the list, in order; null when out of range; no .at() can throw"),
        H("warning", "Logger_warning", "warning(i) likewise"),
        H("message", "Logger_message", "message(i) likewise"),
    ]
    c.trusted_base = [
        "importer unit: the logger is summarised by ghost state (lengths, g_tail, g_listed, levels); each client contract in specs/C15/importer.h is the "
        "logger-unit contract of specs/C15/spec.h read through that summary (addIssue: TAIL(t)->TAIL(t+1)/TAIL(0); removeError: needs t >= 1; setLevel: only unlisted issues) - "
        "the correspondence is argued in DESIGN 3/C15, not machine-checked",
        "importer unit: vectors are count-only and the model library is an abstract map (over-approximations: contents unconstrained); file system and parser are "
        "contract stubs (file may or may not open, parser's logger coherent after parseModel); about 35 getters are pure stubs returning valid object ids",
        "importer unit: at most 7 issues created by one invocation frame; the issue list stays below 2^19 entries (capacity assumptions)",
        "pointwise copy-on-write std::vector model (models/pointwise.h): structural mutations constrained at the ghost indices only",
        "object ids fixed to canonical constants in the harnesses (lowered code is invariant under renaming of object ids)",
        "containers hold fewer than 2^20 elements; allocation never fails",
        "pigeonhole step: count equation + in-range + right level + strictly increasing  ==>  'enumerates exactly the issues "
        "of that level' (argued in DESIGN 3/C15, cross-checked natively by the history simulation, not by CBMC)",
    ]
    c.explanation = ("Unbounded modular proofs (no unwinding: the lowered logger code is loop-free over the pointwise vector model) of the "
                     "representation invariant of Logger::LoggerImpl for every mutator and of every accessor's contract, enforced with "
                     "goto-instrument --dfcc, decided by z3 (QF_AUFBV). ReferenceRule table completeness is a finite AST comparison "
                     "confirmed natively for every enumerator.")
    c.not_covered = ["'a failing result is always explained' for parseModel/analyseModel and the annotator's assign* functions (not lowered); resolveImports only below its top level",
                     "AnyCellmlElement typed accessors vs stored std::any (types.cpp) - not lowered yet",
                     "Importer::resolveImports / flattenModel top level (the callers of fetchComponent / fetchUnits)"]
    exe = {}

    def native(chk):
        d = chk.built["logger"].dir
        exe["x"] = os.path.join(d, "c15_native")
        nativelib.compile_driver(os.path.join(VERIF, "replay/C15_native.cpp"), exe["x"])
        rc, out, err, _ = run([exe["x"], "sim", str(chk.seed), "20000" if chk.tier == "quick" else "300000"], timeout=600)
        m = re.search(r"SIM violates=(\d)", out)
        if not m and rc not in (0, -9):
            out = "SIM violates=1 history=(crash) why=the real code terminated abnormally rc=%s %s" % (rc, (err or "")[-200:].replace("\n", " "))
            m = re.search(r"SIM violates=(\d)", out)
        if not m:
            raise Undecided("native logger simulation did not run: rc=%s %s" % (rc, (out + err)[-300:]))
        chk.native_facts.append(("random histories on the real Logger::LoggerImpl agree with an independent shadow list", m.group(1) == "0", out.strip()[-200:]))
        chk.sim_out = out.strip()
        idir = os.path.join(d, "imports")
        os.makedirs(idir, exist_ok=True)
        rc, out, err, _ = run([exe["x"], "imports", idir], timeout=300)
        if "IMPORTS" not in out:
            out = "IMPORTS violates=1 scenario=(crash) why=the real code terminated abnormally rc=%s %s" % (rc, (err or "")[-200:].replace("\n", " "))
        chk.imp_out = out.strip()
        rc, out, err, _ = run([exe["x"], "lookups"], timeout=300)
        if "LOOKUPS" not in out:
            out = "LOOKUPS violates=1 scenario=(crash) why=the driver terminated abnormally rc=%s %s" % (rc, (err or "")[-200:].replace("\n", " "))
        chk.look_out = out.strip().split("\n")[-1]
        chk.native_facts.append(("30 annotator lookups on the real code (0/1/2 items carry the id; unique and indexed 0..3; item() and component()), each in its own process: "
                                 "no crash, a failing lookup has an issue, a successful one returns an item with that id", "violates=0" in chk.look_out, chk.look_out[-300:]))
        chk.native_facts.append(("64 import scenarios on the real Importer (CellML 1.1/2.0 sources, parse errors related/unrelated, strict/permissive, missing file): "
                                 "accessors coherent, a false result has an issue", "violates=0" in out, out.strip()[-300:]))
        # ReferenceRule table: every enumerator is a key with >= 4 strings (finite, complete; from the AST)
        tu = cast.load_tu("issue.cpp")
        enum_n = None
        for dcl in tu.decls:
            for n in walk(dcl):
                if n.get("kind") == "EnumDecl" and n.get("name") == "ReferenceRule":
                    enum_n = [x["name"] for x in n.get("inner", []) if x.get("kind") == "EnumConstantDecl"]
        if not enum_n:
            raise Undecided("ReferenceRule enum not found in the AST of issue.cpp")
        rc, out, err, _ = run([exe["x"], "rules", str(len(enum_n) - 1)], timeout=60)
        m = re.search(r"RULES checked=(\d+) ok=(\d+) bad=(\d+)", out)
        if not m:
            raise Undecided("rule table run failed: rc=%s %s" % (rc, (out + err)[-300:]))
        chk.extra_cov["reference_rules_checked"] = int(m.group(1))
        chk.native_facts.append(("referenceHeading()/url() retrievable for every ReferenceRule enumerator (%d, read from the AST)" % len(enum_n),
                                 m.group(3) == "0", out.strip()[-300:]))
        if m.group(3) != "0":
            path = os.path.join(OUTROOT, "out", "replay", "C15", "rule_table.json")
            from common import write_json
            write_json(path, {"property": "C15", "failed_obligation": "every ReferenceRule value has a heading and URL (map::at must not throw)",
                              "output": out, "how_to_rerun": "%s rules %d" % (exe["x"], len(enum_n) - 1)})
            chk.violations.append(("ReferenceRule table incomplete: " + out.strip()[-300:], path, ""))

    c.pre_steps = [native]

    def replay(chk, h, o, ce):
        if h.name in ("h_exists", "h_item", "h_item_index"):
            out = getattr(chk, "look_out", "")
            m = re.search(r"LOOKUPS violates=1 scenario=(\S+) why=(.*)", out)
            if m:
                return True, "real Annotator, %s: %s" % (m.group(1), m.group(2)), "lookup=" + m.group(1), {"lookups": out}
            return None, "the 30 lookup scenarios on the real code found no unexplained or crashing lookup", None, {"lookups": out, "ghost": ce}
        if h.name.startswith("h_fetch"):
            out = getattr(chk, "imp_out", "")
            m = re.search(r"IMPORTS violates=1 scenario=(\S+) why=(.*)", out)
            if m:
                return True, "real Importer, scenario %s: %s" % (m.group(1), m.group(2)), "imports=" + m.group(1), {"imports": out}
            return None, "the 64 import scenarios on the real code found no incoherent importer state", None, {"imports": out, "ghost": ce}
        out = getattr(chk, "sim_out", "")
        m = re.search(r"SIM violates=1 history=(\S+) why=(.*)", out)
        if m:
            return True, "real Logger after history %s: %s" % (m.group(1), m.group(2)), "history=" + m.group(1), {"sim": out}
        return None, "the random-history simulation on the real code found no incoherent logger state (seed %d)" % chk.seed, None, {"sim": out, "ghost": ce}

    c.replayers["*"] = replay
    if getattr(c, "replay_file", None):
        import json
        r = json.load(open(c.replay_file))
        print(json.dumps({k: r.get(k) for k in ("failed_obligation", "counterexample", "replayed_on_real_code", "replay_detail")}, indent=1))
        return 0
    rc = c.run()
    if getattr(c, "write_baseline", False):
        c.write_baseline_file()
    return rc


if __name__ == "__main__":
    sys.exit(main(sys.argv[1:]))
