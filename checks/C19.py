#!/usr/bin/env python3
"""C19 - model repair helpers establish what they promise (fixVariableInterfaces)."""
import os
import re
import sys

sys.path.insert(0, os.path.join(os.path.dirname(os.path.abspath(__file__)), "..", "tools"))
import engine
import nativelib
from common import SRC, VERIF, Undecided, log, run
from engine import Harness, UnitSpec
from propcheck import Check


def main(argv):
    c = Check("C19", "other")
    c.parse_args(argv)
    req = [("utilities.cpp", f) for f in ["publicAndOrPrivateInterfaceTypeRequired", "interfaceTypeFor", "determineInterfaceType", "isEntityChildOf", "areEntitiesSiblings"]] + [
        ("parentedentity.cpp", "ParentedEntity::parent"), ("variable.cpp", "Variable::equivalentVariable"), ("variable.cpp", "Variable::equivalentVariableCount")]
    fix = [("model.cpp", "Model::fixVariableInterfaces"), ("variable.cpp", "Variable::permitsInterfaceType"),
           ("variable.cpp", "Variable::setInterfaceType(libcellml::Variable::InterfaceType)"), ("variable.cpp", "Variable::setInterfaceType(std::string const&)")]
    compat = [("variable.cpp", "Variable::permitsInterfaceType"), ("validator.cpp", "interfaceTypeIsCompatible")]
    c.units = [
        UnitSpec("required", sorted(set(t for t, _ in req)), [(t, "libcellml::" + f) for t, f in req], string_model="sid", models=("exact.h", "sidstr.h"),
                 spec_header="specs/C19/spec.h", harness_file="specs/C19/harness.c", prelude="#define H_REQUIRED 1"),
        UnitSpec("fix", sorted(set(t for t, _ in fix)), [(t, "libcellml::" + f) for t, f in fix], string_model="sid", models=("exact.h", "sidstr.h"),
                 spec_header="specs/C19/spec.h", harness_file="specs/C19/harness.c", prelude="#define H_FIX 1"),
        UnitSpec("compat", sorted(set(t for t, _ in compat)), [(t, "libcellml::" + f) for t, f in compat], string_model="vstr", models=("exact.h",),
                 spec_header="specs/C19/spec.h", harness_file="specs/C19/harness.c", prelude="#define H_COMPAT 1"),
    ]
    c.units += [
        UnitSpec("link", ["utilities.cpp"], [("utilities.cpp", "libcellml::linkComponentVariableUnits"), ("utilities.cpp", "libcellml::areComponentVariableUnitsUnlinked")],
                 string_model="sid", models=("exact.h", "sidstr.h"), spec_header="specs/C19/spec.h", harness_file="specs/C19/harness.c", prelude="#define H_LINK 1"),
        UnitSpec("clean", ["model.cpp"], [("model.cpp", "libcellml::traverseHierarchyAndRemoveIfEmpty"), ("model.cpp", "libcellml::Model::clean")],
                 string_model="sid", models=("exact.h", "sidstr.h"), spec_header="specs/C19/spec.h", harness_file="specs/C19/harness.c", prelude="#define H_CLEAN 1",
                 rec_stubs=["traverseHierarchyAndRemoveIfEmpty"]),
    ]
    D = {"HEAP_N": 10, "REF_T": "unsigned", "VVEC_CAP": 4, "MAXE": 3, "VMAP_CAP": 4}
    c.harnesses = [
        ("required", Harness("h_interfaceTypeFor", "F", defines=D, unwind=12, timeout=300, carries="(public, private) -> interface type, all four cases (complete)")),
        ("required", Harness("h_required", "B", defines=D, unwind=5, timeout=900, bound="<= 3 equivalences of one variable; any arrangement of the components involved",
                             carries="the interface cannot be determined EXACTLY when some equivalence joins components that are neither siblings nor parent/child or "
                                     "involves a parentless variable; otherwise public/private are required exactly as the arrangement says - BOUNDED")),
        ("fix", Harness("h_fix", "B", defines=dict(D, VVEC_CAP=3), unwind=12, timeout=900, bound="<= 2 variables with equivalences",
                        carries="fixVariableInterfaces returns false exactly when some variable cannot be determined, still fixes the others, leaves sufficient "
                                "interfaces unchanged, and every fixed variable's interface suffices afterwards - BOUNDED")),
        ("compat", Harness("h_validator_compat", "B", defines=dict(D, VSTR_CAP=20), unwind=22, timeout=900, bound="interface strings <= 18 bytes, all byte values",
                           carries="an interface that suffices for the repair raises no interface issue in the validator (real strings) - BOUNDED")),
    ]
    c.harnesses += [
        ("link", Harness("h_link", "B", defines=dict(D, VVEC_CAP=3), unwind=6, timeout=900, bound="<= 2 variables in the component; units owned by this model, another model or none",
                         carries="linkUnits (per component): true exactly when every variable's units are absent, standard, or can be replaced by the model's own units of "
                                 "that name; then hasUnlinkedUnits is false; already linked variables untouched - BOUNDED")),
        ("clean", Harness("h_clean_component", "B", defines=dict(D, VVEC_CAP=3), unwind=4, timeout=900, bound="<= 2 child components; recursion = the function's own contract",
                          carries="clean (per component): every child is cleaned, a child is removed exactly when empty, a component is empty exactly by the documented definition - BOUNDED width, inductive in depth")),
        ("clean", Harness("h_clean_model", "B", defines=dict(D, VVEC_CAP=3), unwind=4, timeout=900, bound="<= 2 components and <= 2 units",
                          carries="Model::clean removes exactly the empty components and the empty units and leaves everything else untouched - BOUNDED")),
    ]
    c.trusted_base = ["container getters/removers, owningModel and isStandardUnit are contract stubs in h_link / h_clean_* (their obligations are C09's)",
                      "findAllVariablesWithEquivalences is a contract stub (collects the variables that have equivalences) in h_fix",
                      "determineInterfaceType is a contract stub in h_fix (its own obligation is h_required)",
                      "canonical object ids; exact bounded models; strings as identities in h_required/h_fix, real bounded strings in h_validator_compat"]
    c.explanation = ("Obligations on C lowered from utilities.cpp (publicAndOrPrivateInterfaceTypeRequired, interfaceTypeFor, determineInterfaceType), model.cpp "
                     "(fixVariableInterfaces), variable.cpp (permitsInterfaceType, setInterfaceType) and validator.cpp (interfaceTypeIsCompatible), with "
                     "post-conditions transcribed from the property. Loops over the equivalence list / variable list are BOUNDED.")
    c.not_covered = ["the traversals that apply the per-component steps (traverseComponentEntityTreeLinkingUnits, findAllVariablesWithEquivalences)"]
    exe = {}

    def native(chk):
        d = chk.built["required"].dir
        exe["x"] = os.path.join(d, "c19_native")
        nativelib.compile_driver(os.path.join(VERIF, "replay/C19_native.cpp"), exe["x"])
        rc, out, err, _ = run([exe["x"], "fuzz", str(chk.seed), "3000" if chk.tier == "quick" else "60000"], timeout=900)
        if rc != 0 and "FUZZ" not in out:
            out = "FUZZ violates=1 what=the real code terminated abnormally rc=%s %s" % (rc, (err or "")[-300:].replace("\n", " "))
        m = re.search(r"FUZZ violates=(\d)", out)
        if not m:
            raise Undecided("native fixVariableInterfaces fuzz did not run: rc=%s %s" % (rc, (out + err)[-300:]))
        chk.fuzz_out = out.strip()
        chk.native_facts.append(("native random models: fixVariableInterfaces() result agrees with an independent reachability oracle and with the validator",
                                 m.group(1) == "0", out.strip()[-300:]))

    c.pre_steps = [native]

    def replay(chk, h, o, ce):
        out = getattr(chk, "fuzz_out", "")
        m = re.search(r"FUZZ violates=1 what=(.*)", out, re.S)
        if m:
            return True, "real code, random model: " + m.group(1)[:400].replace("\n", " "), "fuzz:" + m.group(1)[:50], {"fuzz": out[:1200], "ce": ce}
        return None, "the native fuzz found no disagreement (seed %d); verifier counterexample: %s" % (chk.seed, ce), None, {"ce": ce}

    c.replayers["*"] = replay
    if getattr(c, "replay_file", None):
        import json
        r = json.load(open(c.replay_file))
        print(json.dumps({k: r.get(k) for k in ("failed_obligation", "counterexample", "replayed_on_real_code", "replay_detail")}, indent=1))
        return 0
    rc = c.run()
    if getattr(c, "write_baseline", False):
        c.write_baseline_file()
    return rc


if __name__ == "__main__":
    sys.exit(main(sys.argv[1:]))
