#!/usr/bin/env python3
"""C13 - identifier assignment is unique and consults an up-to-date id index (typestate over effect slices)."""
import os
import re
import sys

sys.path.insert(0, os.path.join(os.path.dirname(os.path.abspath(__file__)), "..", "tools"))
import cast
import engine
import nativelib
import slicer
from common import SRC, VERIF, Undecided, log, run, write_json
from engine import Harness, UnitSpec
from propcheck import Check


def hash_assign(rhs):
    if "generateHash" in rhs:
        return "mHash_assign_generateHash"
    if rhs.strip() == "0":
        return "mHash_assign_zero"
    return "mHash_assign_other"


VOCAB = slicer.Vocabulary(
    methods=[(r"listIdsAndItems", "list_rebuilt"), (r"set\w*Id|setUnitId", lambda call: "id_removed" if re.search(r',\s*""\s*\)$|\(\s*""\s*\)$', call.strip()) else "id_set"), (r"remove\w*Id", "id_removed"),
             (r"removeAllIssues", "issues_cleared"), (r"addIssue\w*", "issue_added")],
    field_methods=[("mIdList", r"insert|emplace", "list_insert"), ("mIdList", r"clear", "list_clear"), ("mIdList", r"erase", "list_erase"),
                   ("mIdList", r"count|equal_range|begin|end|find|upper_bound|lower_bound", "list_read"), ("mIdList", r"size", "list_size")],
    field_assign={"mHash": hash_assign, "mIdList": lambda rhs: "list_rebuilt" if "listIdsAndItems" in rhs else "list_assigned"},
    opaque=["S_Annotator_AnnotatorImpl_update", "S_Annotator_AnnotatorImpl_makeUniqueId"],
    read_only=["list_read", "list_size", "issue_added"])


def main(argv):
    c = Check("C13", "other")
    c.parse_args(argv)
    # printer side: completeness of the id collection (unbounded: loop contracts, ghost-element set)
    c.units = [UnitSpec("listids", ["utilities.cpp"], [("utilities.cpp", "libcellml::listComponentIds"), ("utilities.cpp", "libcellml::listIds")], string_model="sid",
                        models=("pointwise.h",), spec_header="specs/C13/listids.h", harness_file="specs/C13/listids_harness.c", rec_stubs=["listComponentIds"])]
    lstubs = sorted(set(m.group(1) for m in re.finditer(r"^#define __FC_(\w+)", open(os.path.join(VERIF, "specs/C13/listids.h")).read(), re.M)))
    for nm, carries in (("listComponentIds", "utilities.cpp listComponentIds: EVERY identifier carried by the component, its import source, its variables (and their mapping / "
                                             "connection ids), its resets and (by its own contract) its child components is collected; nothing is removed"),
                        ("listIds", "utilities.cpp listIds: EVERY identifier of the model, its units (their import sources and unit children) and its component trees is collected - "
                                    "what Printer::printModel(model, true) avoids when it generates ids")):
        c.harnesses.append(("listids", Harness("h_" + nm, "U", enforce=nm, replace=[x for x in lstubs if x != nm] + ["listComponentIds__rec"], defines={"HEAP_N": 12, "PW_NO_H": 1},
                                               backend="kissat|z3", timeout=900, loop_contracts=True, object_bits=12, carries=carries)))
    # annotator side: the build of the annotator's own id index under a data contract (keys-only multimap, unbounded)
    c.units.append(UnitSpec("annidx", ["annotator.cpp"], [("annotator.cpp", "libcellml::Annotator::AnnotatorImpl::listIdsAndItems")], string_model="sid",
                            models=("pointwise.h",), spec_header="specs/C13/annidx.h", harness_file="specs/C13/annidx_harness.c"))
    astubs = sorted(set(m.group(1) for m in re.finditer(r"^#define __FC_(\w+)", open(os.path.join(VERIF, "specs/C13/annidx.h")).read(), re.M)))
    anm = "Annotator_AnnotatorImpl_listIdsAndItems"
    c.harnesses.append(("annidx", Harness("h_listIdsAndItems", "U", enforce=anm, replace=[x for x in astubs if x != anm], defines={"HEAP_N": 12, "PW_NO_H": 1},
                                          backend="kissat|z3", timeout=900, loop_contracts=True, object_bits=12,
                                          carries="AnnotatorImpl::listIdsAndItems (the index makeUniqueId consults): EVERY identifier of the model, of each units (its own id, its import "
                                                  "source's id, the ids of its unit children - imported or not) and (by the assumed contract of listComponentIdsAndItems) of each "
                                                  "component tree is a key of the index; keys-only lowering of the multimap")))
    wd = engine.work_dir("C13")
    exe = {}

    def build(chk):
        tu = cast.load_tu("annotator.cpp")
        s = slicer.Slicer(tu, VOCAB)
        text, eff, used = s.run()
        entries = [cn for cn in eff if re.match(r"S_Annotator_[a-z]", cn) and cn not in VOCAB.opaque]
        if not entries or "S_Annotator_assignAllIds__" not in entries:
            raise Undecided("extraction: the public entry points of Annotator were not found among the effect slices: %s" % entries[:5])
        for must in ("Annotator_AnnotatorImpl_makeUniqueId", "Annotator_AnnotatorImpl_update", "list_insert", "id_set", "list_read"):
            if must not in used:
                raise Undecided("must-fire: effect %s no longer occurs in annotator.cpp (vocabulary out of date)" % must)
        eh = open(os.path.join(VERIF, "specs/C13/effects.h")).read()
        for e in used:
            if "E_%s(" % e not in eh:
                raise Undecided("must-fire: effect %s occurs in the slices but has no contract in specs/C13/effects.h" % e)
        d = os.path.join(wd, "slices")
        os.makedirs(d, exist_ok=True)
        harness = []
        for cn in entries:
            harness.append("void h_%s(void)\n{\n    L = nondet_bool(); X = nondet_bool(); Hh = nondet_bool(); pend = 0; saveL = 0;\n    __CPROVER_assume(!Hh || (L && X)); /* invariant I on entry, after arbitrary model edits */\n"
                           "    %s();\n    __CPROVER_assert(!Hh || (L && X), \"%s: on return a current hash certifies a complete and exact id list\");\n"
                           "#ifdef CANARY\n    __CPROVER_assert(0, \"CANARY reachable\");\n#endif\n}\n" % (cn[2:], cn, cn[2:]))
        for cn in sorted(s.recursive):
            harness.append("void h_rec_%s(void)\n{\n    L = 1; X = nondet_bool(); Hh = nondet_bool(); pend = 0; saveL = nondet_bool();\n    __CPROVER_assume(!Hh || X);\n"
                           "    %s();\n    __CPROVER_assert(!pend && L && (!Hh || X), \"%s satisfies the summary used at its recursive call\");\n"
                           "#ifdef CANARY\n    __CPROVER_assert(0, \"CANARY reachable\");\n#endif\n}\n" % (cn[2:], cn, cn[2:]))
        unit = ('#include "%s"\n#include <stdbool.h>\nbool nondet_bool(void);\nint nondet_int(void);\n#include "%s"\n%s\n%s\n' % (
            os.path.join(VERIF, "models/base.h"), os.path.join(VERIF, "specs/C13/effects.h"), text, "\n".join(harness)))
        b = engine.Built()
        b.dir = d
        b.unit_c = os.path.join(d, "unit.c")
        b.text = unit
        b.lowered_text = text
        open(b.unit_c, "w").write(unit)
        open(os.path.join(d, "lowered.c"), "w").write(text)

        class _L:
            funcs = {}
        b.lowered = _L()
        chk.built["slices"] = b
        for cn in entries:
            chk.harnesses.append(("slices", Harness("h_" + cn[2:], "F", defines={}, unwind=6, loop_contracts=True, backend="sat", timeout=300,
                                                    carries="%s: makeUniqueId/lookups only with a complete id list; invariant (hash current => list complete) restored" % cn[2:].replace("Annotator_", "Annotator::"))))
            chk.harnesses[-1][1].no_unwinding_assertions = True
        for cn in sorted(s.recursive):
            chk.harnesses.append(("slices", Harness("h_rec_" + cn[2:], "F", defines={}, unwind=6, loop_contracts=True, backend="sat", timeout=300,
                                                    carries="%s (recursive over the component tree) satisfies its own summary: induction on depth" % cn[2:])))
            chk.harnesses[-1][1].no_unwinding_assertions = True
        chk.functions_under_contract += [{"function": cn[2:], "lowered_as": cn, "file": "/repo/src/annotator.cpp", "lines": [], "loops": 0, "text_sha256": ""} for cn in eff]
        chk.extra_cov["effect_slices"] = len(eff)
        chk.extra_cov["entry_points"] = len(entries)
        chk.extra_cov["effects_seen"] = used
        # native side
        exe["x"] = os.path.join(d, "c13_native")
        nativelib.compile_driver(os.path.join(VERIF, "replay/C13_native.cpp"), exe["x"])
        rc, out, err, _ = run([exe["x"], "fuzz", str(chk.seed), "1500" if chk.tier == "quick" else "30000"], timeout=900)
        if rc != 0 and "FUZZ" not in out:
            out = "FUZZ violates=1 what=the real code terminated abnormally rc=%s %s" % (rc, (err or "")[-300:].replace("\n", " "))
        m = re.search(r"FUZZ violates=(\d)", out)
        if not m:
            raise Undecided("native annotator fuzz did not run: rc=%s %s" % (rc, (out + err)[-300:]))
        chk.fuzz_out = out.strip()
        rc, out2, err, _ = run([exe["x"], "printids", str(chk.seed), "1500" if chk.tier == "quick" else "30000"], timeout=900)
        if "PRINTIDS" not in out2:
            out2 = "PRINTIDS violates=1 what=the real code terminated abnormally rc=%s %s" % (rc, (err or "")[-300:].replace("\n", " "))
        chk.print_out = out2.strip()
        chk.native_facts.append(("native random models with unique ids (imports with local children, resets, units, mapping/connection ids): every id written by "
                                 "printModel(model, true) is unique and the model is not modified", "violates=0" in out2, out2.strip()[-300:]))
        chk.native_facts.append(("native random models / edit-then-assign sequences: new ids unique, old ids unchanged, lookups agree with a traversal",
                                 m.group(1) == "0", out.strip()[-300:]))
        # update() is a trusted contract of the slices ("the hash is current only if no identifier changed").  The part of it that can be read off the
        # real code: every KIND of identifier that the index build reads must also be read by the hash computation (relational fact over the clang AST of
        # the four functions; coarse: kinds are (declaring class, getter), not objects).  A kind the hash does not read is an edit update() cannot see.
        def id_reads(sig):
            from cxx2c import _walk
            out = set()
            for n in _walk(tu.find(sig)):
                if n.get("kind") == "MemberExpr" and n.get("inner") and re.search(r"(^id|Id)$|^unitAttributes$", n.get("name", "")):
                    t = n["inner"][0].get("type") or {}
                    q = t.get("desugaredQualType") or t.get("qualType") or ""
                    mm = re.search(r"libcellml::(\w+)", q)
                    nm = "unitId" if n["name"] == "unitAttributes" else n["name"]
                    if not re.match(r"(set|remove|assign|make)", nm):
                        out.add((mm.group(1) if mm else "?") + "." + nm)
                if n.get("kind") == "DeclRefExpr" and re.search(r"^equivalence\w*Id$", (n.get("referencedDecl") or {}).get("name", "")):
                    out.add("Variable." + n["referencedDecl"]["name"])
            return out
        pre = "libcellml::Annotator::AnnotatorImpl::"
        indexed = id_reads(pre + "listIdsAndItems") | id_reads(pre + "listComponentIdsAndItems")
        hashed = id_reads(pre + "generateHash") | id_reads(pre + "doUpdateComponentHash")
        if len(indexed) < 5 or not hashed:
            raise Undecided("must-fire: identifier reads of the index build / hash computation not found in annotator.cpp (%s / %s)" % (sorted(indexed), sorted(hashed)))
        missing = sorted(indexed - hashed)
        chk.extra_cov["hash_covers_index"] = {"indexed_kinds": sorted(indexed), "hashed_kinds": sorted(hashed), "missing": missing}
        chk.native_facts.append(("AST of annotator.cpp: every kind of identifier read by listIdsAndItems/listComponentIdsAndItems is read by generateHash/doUpdateComponentHash "
                                 "(so update() can notice its edit)", not missing, "indexed %s; hashed %s" % (sorted(indexed), sorted(hashed))))
        if missing:
            from common import OUTROOT, write_json
            what = ("update(): the hash that decides whether the id index is current does not read %s, which the index build does read: after such an identifier is edited "
                    "the stale index is kept and makeUniqueId() can return an identifier the model already carries" % ", ".join(missing))
            mf = re.search(r"FUZZ violates=1 what=(.*)", chk.fuzz_out, re.S)
            path = os.path.join(OUTROOT, "out", "replay", "C13", "hash_covers_index.json")
            write_json(path, {"property": "C13", "failed_obligation": {"id": "hash_covers_index", "class": "frame", "function": "Annotator::AnnotatorImpl::generateHash", "desc": what,
                                                                      "file": os.path.join(SRC, "annotator.cpp"), "line": ""},
                              "counterexample": {}, "replayed_on_real_code": bool(mf), "replay_detail": mf.group(1)[:400] if mf else "the native fuzz found no duplicate (seed %d)" % chk.seed,
                              "verifier_output": "clang AST: identifier reads of the index build %s; of the hash computation %s" % (sorted(indexed), sorted(hashed)),
                              "how_to_rerun": "cd /verif && ./check C13 quick"})
            chk.violations.append((what + (" - reproduced on the real code: " + mf.group(1)[:300].strip() if mf else ""), path, "" if mf else " no-failing-input-found"))

    c.pre_steps = [build]
    c.trusted_base = [
        "annidx unit: AnnotatorImpl::listComponentIdsAndItems is an ASSUMED contract (collects the subtree's ids, removes nothing); the multimap is lowered keys only, "
        "the construction of the mapped AnyCellmlElement values (create/set*/UnitsItem::create) are frame-nothing stubs",
        "listids unit: the object tree is read through contract stubs of the getters at arbitrary ghost indices; the id set tracks one arbitrary identifier Z exactly (models/pointwise.h)",
        "effect slices (tools/slicer.py): every condition is a nondeterministic choice, all data is dropped; only the order of effects on each path is kept",
        "update() is a trusted contract: generateHash() is sensitive to every identifier of the model. Checked only in part: every KIND of identifier the index build reads is read by "
        "the hash computation (AST fact, found that mapping/connection ids were ignored - fixed 4bdd2fe); that the string is built injectively and std::hash does not collide is NOT checked",
        "every loop of the slices carries the same loop contract (specs/C13/effects.h) and is not unwound; recursion (component trees) is unwound 6 deep over a 16-state abstraction",
        "effect vocabulary of checks/C13.py: id setters = member functions named set*Id / remove*Id",
    ]
    c.explanation = ("Typestate obligations over mechanically extracted effect slices of every function of annotator.cpp: each public entry point is entered with "
                     "an arbitrary id-index state allowed by the invariant (the model may have been edited) and must reach makeUniqueId() and every lookup only "
                     "with a complete id list, and re-establish the invariant. Complete for the finite abstraction; the abstraction drops all data, so "
                     "'every item that lacked an id gets one' and 'existing ids unchanged' are NOT decided here (only exercised by the native fuzz).")
    c.not_covered = ["completeness of assignment and preservation of existing ids (data-dependent)", "Printer::printModel(model, true): makeUniqueId(IdList&) and the autoIds branches of printer.cpp (only the id collection they rely on is under contract; the rest is exercised by the native print fuzz)",
                     "generateHash sensitivity beyond the kinds of identifier it reads (injective construction of the hashed string, hash collisions)"]

    def replay(chk, h, o, ce):
        if h.name in ("h_listComponentIds", "h_listIds"):
            out = getattr(chk, "print_out", "")
            m = re.search(r"PRINTIDS violates=1 what=(.*)", out, re.S)
            if m:
                return True, "real code: " + m.group(1)[:400].replace("\n", " "), "printids", {"printids": out[:1200]}
            return None, "the native print fuzz found no duplicated id (seed %d)" % chk.seed, None, {}
        out = getattr(chk, "fuzz_out", "")
        m = re.search(r"FUZZ violates=1 what=(.*)", out, re.S)
        if m:
            return True, "real code: " + m.group(1)[:400].replace("\n", " "), "fuzz:" + m.group(1)[:60], {"fuzz": out[:1200]}
        return None, "the native fuzz found no duplicate or changed identifier (seed %d)" % chk.seed, None, {}

    c.replayers["*"] = replay
    # the exactness flag X is cleared by EVERY identifier write, although a write to an item that had no identifier leaves no stale
    # entry (the slices drop that condition): a failing X obligation counts only when the native fuzz reproduces a wrong lookup
    c.replay_required = lambda h, o: bool(re.search(r"stale|exact", o.get("desc", "")))
    if getattr(c, "replay_file", None):
        import json
        r = json.load(open(c.replay_file))
        print(json.dumps({k: r.get(k) for k in ("failed_obligation", "counterexample", "replayed_on_real_code", "replay_detail")}, indent=1))
        return 0
    rc = c.run()
    if getattr(c, "write_baseline", False):
        c.write_baseline_file()
    return rc


if __name__ == "__main__":
    sys.exit(main(sys.argv[1:]))
