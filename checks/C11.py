#!/usr/bin/env python3
"""C11 - clone() is a faithful, independent deep copy."""
import os
import re
import sys

sys.path.insert(0, os.path.join(os.path.dirname(os.path.abspath(__file__)), "..", "tools"))
import engine
import nativelib
from common import SRC, VERIF, Undecided, log, run
from engine import Harness, UnitSpec
from propcheck import Check

BASE = [("entity.cpp", "Entity::doEquals"), ("entity.cpp", "Entity::equals"), ("entity.cpp", "Entity::id"), ("entity.cpp", "Entity::setId"),
        ("namedentity.cpp", "NamedEntity::doEquals"), ("namedentity.cpp", "NamedEntity::name"), ("namedentity.cpp", "NamedEntity::setName"),
        ("utilities.cpp", "areEqual(std::string const&, std::string const&)")]
IMP = [("importedentity.cpp", "ImportedEntity::" + f) for f in ["isImport", "importSource", "setImportSource", "importReference", "setImportReference"]]
PAR = [("parentedentity.cpp", "ParentedEntity::" + f) for f in ["hasParent", "parent", "hasAncestor", "ParentedEntityImpl::setParent"]]
CE = [("componententity.cpp", "ComponentEntity::" + f) for f in ["addComponent", "doAddComponent", "componentCount", "component(unsigned long) const",
                                                                   "setEncapsulationId", "encapsulationId"]]
UNITS = {
    "Reset": BASE + [("reset.cpp", "Reset::" + f) for f in ["clone", "doEquals", "order", "setOrder", "removeOrder", "isOrderSet", "variable", "setVariable",
                                                            "testVariable", "setTestVariable", "testValue", "setTestValue", "testValueId", "setTestValueId",
                                                            "resetValue", "setResetValue", "resetValueId", "setResetValueId"]],
    "Variable": BASE + [("variable.cpp", "Variable::" + f) for f in ["clone", "doEquals", "units", "setUnits(std::shared_ptr<libcellml::Units> const&)",
                                                                   "initialValue", "setInitialValue(std::string const&)", "interfaceType",
                                                                   "setInterfaceType(std::string const&)"]],
    "ImportSource": BASE + [("importsource.cpp", "ImportSource::" + f) for f in ["clone", "doEquals", "url", "setUrl", "model", "setModel"]],
    "Units": BASE + IMP + [("units.cpp", "Units::clone"),
                           ("units.cpp", "Units::unitAttributes(unsigned long, std::string&, std::string&, double&, double&, std::string&) const")],
    "Component": BASE + IMP + PAR + CE + [("component.cpp", "Component::" + f) for f in ["clone", "setMath", "math", "addVariable", "addReset",
                                                                                        "variable(unsigned long) const", "reset(unsigned long) const",
                                                                                        "variableCount", "resetCount", "doAddComponent"]]
    + [("reset.cpp", "Reset::" + f) for f in ["variable", "setVariable", "testVariable", "setTestVariable"]] + [("utilities.cpp", "indexOf")],
    "Model": BASE + PAR + CE + [("model.cpp", "Model::" + f) for f in ["clone", "addUnits", "units(unsigned long) const", "doAddComponent"]],
}


def main(argv):
    c = Check("C11", "other")
    c.parse_args(argv)
    n = 1 if c.tier == "quick" else 2
    for nm, F in UNITS.items():
        c.units.append(UnitSpec(nm.lower(), sorted(set(t for t, _ in F)), [(t, "libcellml::" + f) for t, f in F], string_model="sid",
                                models=("exact.h", "sidstr.h"), spec_header="specs/C11/spec.h", harness_file="specs/C11/harness.c",
                                prelude="#define HEAP_TOOLS 1\n#define H_%s 1" % nm.upper(), rec_stubs=["Component_clone"]))
    EQ = ["makeEquivalence", "applyEquivalenceMapToModel", "recordVariableEquivalences", "generateEquivalenceMap", "getVariableLocatedAt",
          "indexStackOf(std::shared_ptr<libcellml::Variable> const&)"]
    c.units.append(UnitSpec("equiv", ["utilities.cpp"], [("utilities.cpp", "libcellml::" + f) for f in EQ], string_model="sid", models=("exact.h", "sidstr.h"),
                            spec_header="specs/C11/equiv.h", harness_file="specs/C11/equiv_harness.c", rec_stubs=["generateEquivalenceMap"]))
    D = {"HEAP_N": 8, "REF_T": "unsigned", "VMAP_CAP": 1}
    DE = {"HEAP_N": 8, "REF_T": "unsigned", "VVEC_CAP": 3, "VMAP_CAP": 3, "MAXW": 2}
    getters = ["ComponentEntity_componentCount", "ComponentEntity_component__sz", "Component_variableCount", "Component_variable__sz", "ParentedEntity_parent",
               "Variable_equivalentVariableCount", "Variable_equivalentVariable", "getComponentIndexInComponentEntity", "indexOf", "Variable_addEquivalence__ref_ref"]

    def HE(name, kind, enforce, replace, unwind, bound, carries):
        h = Harness(name, kind, enforce=enforce, replace=replace, defines=DE, unwind=unwind, backend="sat", timeout=1500, object_bits=12, bound=bound, carries=carries)
        h.harness_unwind = 12
        return ("equiv", h)
    c.harnesses = [
        ("reset", Harness("h_Reset_order_invariant", "F", defines=D, unwind=10, timeout=300,
                          carries="representation invariant of Reset: an unset order is stored as 0 (create, setOrder, removeOrder)")),
        ("reset", Harness("h_Reset_clone", "F", defines=D, unwind=10, timeout=300,
                          carries="Reset::clone: every serialised attribute copied INCLUDING whether the order is set; variables cloned, not shared; "
                                  "equals the original; no parent; nothing pre-existing changes (complete: loop-free)")),
        ("variable", Harness("h_Variable_clone", "F", defines=D, unwind=10, timeout=300,
                             carries="Variable::clone: name, id, initial value, interface, units cloned not shared; no equivalences, no parent; frame (complete)")),
        ("importsource", Harness("h_ImportSource_clone", "F", defines=D, unwind=10, timeout=300,
                                 carries="ImportSource::clone: id, url, resolved model (shared as documented); frame (complete)")),
        ("units", Harness("h_Units_clone", "B", defines=dict(D, VVEC_CAP=3, MAXN=2), unwind=4, timeout=600, bound="<= 2 unit children",
                          carries="Units::clone: id, name, import, every unit child attribute by attribute in order; no parent; frame - BOUNDED")),
        ("component", Harness("h_Component_clone_children", "B", defines=dict(D, HEAP_N=16, VVEC_CAP=3, MAXN=2, VARY=3, H_NAME="h_Component_clone_children"),
                              unwind=4, timeout=900, bound="<= 2 child components; recursion replaced by the function's own contract (induction on depth)",
                              carries="Component::clone: id, name, math, ENCAPSULATION ID, import; child components cloned and owned by the clone; frame - BOUNDED width, inductive in depth")),
        ("component", Harness("h_Component_clone_members", "B", defines=dict(D, HEAP_N=16, VVEC_CAP=n + 1, MAXN=n, VARY=1, H_NAME="h_Component_clone_members"),
                              unwind=n + 2, timeout=1800, bound="<= %d variables and <= %d resets" % (n, n),
                              carries="Component::clone: variables and resets cloned in order and owned by the clone; a reset of one of the component's own "
                                      "variables refers to the clone's own copy, never to the original's; frame - BOUNDED")),
        ("model", Harness("h_Model_clone", "B", defines=dict(D, HEAP_N=14, VVEC_CAP=3, MAXN=2), unwind=4, timeout=900, bound="<= 2 units and <= 2 components",
                          carries="Model::clone: id, name, encapsulation id; units and components cloned in order and owned by the clone; no parent; frame - BOUNDED")),
    ]
    c.harnesses += [
        HE("h_makeEquivalence", "F", "makeEquivalence", getters + ["getVariableLocatedAt"], 6, None,
           "makeEquivalence(path1, path2, model): afterwards the variables located at the two paths are DIRECTLY equivalent, and no existing equivalence is lost (complete: loop-free)"),
        HE("h_applyEquivalenceMap", "B", None, ["makeEquivalence"], 5, "<= 2 keys with <= 2 paths each, paths of length <= 3",
           "applyEquivalenceMapToModel: makeEquivalence is called, in the given model, for EVERY (variable path, equivalent variable path) pair of the map - BOUNDED"),
        HE("h_recordVariableEquivalences", "B", None, getters + ["indexStackOf__ref"], 5, "<= 2 variables with <= 2 equivalent variables each; running path of length <= 2",
           "recordVariableEquivalences: the map entry keyed by a variable's path lists the paths of ALL its equivalent variables, in order; running path restored - BOUNDED"),
        HE("h_path_roundtrip", "B", None, getters, 6, "trees of depth <= 3 (model, component, child component), <= 2 children / variables per object",
           "getVariableLocatedAt(indexStackOf(v), model of v) == v: a path recorded in the original designates the corresponding variable of a tree of the same shape - BOUNDED"),
        HE("h_generateEquivalenceMap", "B", None, getters + ["recordVariableEquivalences", "generateEquivalenceMap__rec"], 5, "<= 2 child components; recursion = the function's own contract",
           "generateEquivalenceMap: every child component is recorded and descended into under the parent's path extended by its index; running path restored - BOUNDED width, inductive in depth"),
    ]
    c.trusted_base = [
        "equiv unit: the object tree is ghost tables read through contract stubs of the getters (componentCount, component(i), variable(i), parent, "
        "equivalentVariable(j), indexOf, getComponentIndexInComponentEntity); Variable::addEquivalence is a contract stub (each lists the other afterwards: C09's obligation)",
        "create() is a fresh object with the defaults of the implementation record (in-class initialisers read from the AST)",
        "clone() of a child is a contract stub: a fresh object equal to the child (the obligation proved for that class in its own harness)",
        "Units::addUnit is a contract stub (appends the attributes; its prefix normalisation is idempotent)",
        "strings as identities; exact bounded vectors; canonical object ids (symmetry)",
        "Model::clone: fixComponentUnits is NOT under contract (no-op stub); the re-creation of variable equivalences is under contract function by function "
        "(equiv unit) and Model::clone is checked to call record/generate for every top-level component with path [index] and to apply the map to the CLONE; "
        "they are exercised only by the native clone fuzz (printed clone == printed original, equivalences included)",
    ]
    c.explanation = ("Per-class obligations on C lowered from the real clone() functions and every setter/getter/add* they call: field-by-field "
                     "equality of every serialised attribute (presence flags included), cloned children fresh and not shared, clone.equals(original) "
                     "through the lowered doEquals, no parent, and a frame check that no pre-existing object changes. Reset/Variable/ImportSource are "
                     "loop-free (complete); Units/Component/Model loops are BOUNDED by the stated child counts.")
    c.not_covered = ["equivalences inside a cloned model connect only the clone's own variables (EquivalenceMap re-creation is not lowered)",
                     "units re-linking of cloned variables (fixComponentUnits)"]
    exe = {}

    def native(chk):
        d = chk.built["reset"].dir
        exe["x"] = os.path.join(d, "c11_native")
        nativelib.compile_driver(os.path.join(VERIF, "replay/C11_native.cpp"), exe["x"])
        rc, out, err, _ = run([exe["x"], "fuzz", str(chk.seed), "1500" if chk.tier == "quick" else "30000"], timeout=900)
        if rc not in (0,) and "CLONEFUZZ" not in out:
            out = "CLONEFUZZ violates=1 what=the real code terminated abnormally rc=%s detail=%s" % (rc, (err or "")[-200:].replace("\n", " "))
        m = re.search(r"CLONEFUZZ violates=(\d)", out)
        if not m:
            raise Undecided("native clone fuzz did not run: rc=%s %s" % (rc, (out + err)[-300:]))
        chk.fuzz_out = out.strip()
        chk.native_facts.append(("native clone fuzz: printed Model::clone == printed original (equivalences included), clones equal their originals, "
                                 "no parent, mutation independence", m.group(1) == "0", out.strip()[-300:]))

    c.pre_steps = [native]

    def replay(chk, h, o, ce):
        out = getattr(chk, "fuzz_out", "")
        m = re.search(r"CLONEFUZZ violates=1 what=(.*?) detail=(.*)", out, re.S)
        if m:
            return True, "real code, random model: %s [%s]" % (m.group(1), m.group(2)[:200].replace("\n", " ")), "fuzz:" + m.group(1), {"fuzz": out[:1500]}
        return None, "the native clone fuzz found no difference between clones and originals (seed %d)" % chk.seed, None, {"ce": ce}

    c.replayers["*"] = replay
    if getattr(c, "replay_file", None):
        import json
        r = json.load(open(c.replay_file))
        print(json.dumps({k: r.get(k) for k in ("failed_obligation", "counterexample", "replayed_on_real_code", "replay_detail")}, indent=1))
        return 0
    rc = c.run()
    if getattr(c, "write_baseline", False):
        c.write_baseline_file()
    return rc


if __name__ == "__main__":
    sys.exit(main(sys.argv[1:]))
