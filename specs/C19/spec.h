/* C19 - Model::fixVariableInterfaces establishes what it promises.
 * Post-conditions transcribed from the property:
 *  - the interface type required by a variable is (public iff some equivalent variable lives in a
 *    sibling or in the parent component, private iff some lives in a child component), and it is
 *    "cannot be determined" EXACTLY when some equivalence joins components that are neither
 *    siblings nor parent and child, or involves a parentless variable;
 *  - fixVariableInterfaces returns false exactly when that happens for some variable, the other
 *    variables are still fixed, variables whose interface already suffices are unchanged, and
 *    afterwards the validator's compatibility test passes for every fixed variable.           */
#ifndef C19_SPEC_H
#define C19_SPEC_H
#include "kinds.h"
unsigned char __kind[HEAP_N];
bool __alive[HEAP_N];
size_t __addr[HEAP_N];
#ifndef MAXE
#define MAXE 3
#endif
#endif
