#ifdef CANARY
#define CANARY_HERE() __CPROVER_assert(0, "CANARY reachable")
#else
#define CANARY_HERE()
#endif

#ifdef H_REQUIRED
#define PARENT(x) F_ParentedEntityImpl_mParent[x]
#define V_ 1
/* objects: 1 the variable, 2..4 its equivalent variables (canonical ids, list order), 5 its
 * component, 6..8 other components, 9 the model */
void h_interfaceTypeFor(void)
{
    bool in_pub, in_priv;
    int t = interfaceTypeFor((vpair_b_b){in_pub, in_priv});
    __CPROVER_assert(t == (in_pub && in_priv ? Variable_InterfaceType_PUBLIC_AND_PRIVATE
                                              : in_pub ? Variable_InterfaceType_PUBLIC
                                                       : in_priv ? Variable_InterfaceType_PRIVATE : Variable_InterfaceType_NONE),
                     "interfaceTypeFor maps (public needed, private needed) to the interface type");
    CANARY_HERE();
}
void h_required(void)
{
    havoc_heap();
    for (unsigned k = 0; k < HEAP_N; ++k)
        __alive[k] = 1;
    vvec_ref *le = &F_VariableImpl_mEquivalentVariables[V_];
    __CPROVER_assume(le->n <= MAXE);
    for (size_t k = 0; k < MAXE; ++k)
        le->d[k] = (ref)(2 + k);
    PARENT(V_) = 5;
    for (ref e = 2; e <= 4; ++e)
        __CPROVER_assume(PARENT(e) == 0 || (PARENT(e) >= 5 && PARENT(e) <= 8));
    for (ref c = 5; c <= 8; ++c)
        __CPROVER_assume(PARENT(c) == 0 || PARENT(c) == 9 || (PARENT(c) >= 5 && PARENT(c) <= 8 && PARENT(c) != c));
    PARENT(9) = 0;
    size_t ce_n = le->n;
    ref ce_p2 = PARENT(2), ce_p3 = PARENT(3), ce_p4 = PARENT(4), ce_pp5 = PARENT(5), ce_pp6 = PARENT(6), ce_pp7 = PARENT(7), ce_pp8 = PARENT(8);
    /* the property's own reading */
    bool bad = 0, pub = 0, priv = 0;
    for (size_t k = 0; k < MAXE; ++k)
        if (k < ce_n) {
            ref C = PARENT(2 + k), A = 5;
            if (C == 0)
                bad = 1; /* parentless equivalent variable */
            else if (PARENT(A) == PARENT(C) || PARENT(A) == C)
                pub = 1; /* sibling components (same component included), or C is the parent of A */
            else if (PARENT(C) == A)
                priv = 1; /* C is a child of A */
            else
                bad = 1; /* neither siblings nor parent and child */
        }
    vpair_b_b r = publicAndOrPrivateInterfaceTypeRequired(V_);
    if (bad)
        __CPROVER_assert(!r.first && !r.second, "an equivalence between unreachable components, or with a parentless variable, means the interface cannot be determined (false, false)");
    else if (ce_n > 0) {
        __CPROVER_assert(r.first == pub, "public interface required exactly when an equivalent variable lives in a sibling or in the parent component");
        __CPROVER_assert(r.second == priv, "private interface required exactly when an equivalent variable lives in a child component");
    }
    int t = determineInterfaceType(V_);
    __CPROVER_assert((t == Variable_InterfaceType_NONE) == (bad || ce_n == 0), "determineInterfaceType is NONE exactly in the undeterminable case (or without equivalences)");
    CANARY_HERE();
}
#endif

#ifdef H_FIX
#define NV 2
static int T[HEAP_N]; /* the required interface type of each variable: determineInterfaceType as a contract stub */
int determineInterfaceType(ref variable) { return T[variable]; }
static size_t in_nv;
void findAllVariablesWithEquivalences(ref component, vvec_ref *variables)
{
    /* not under contract: collects the variables that have equivalences (canonical ids 1, 2) */
    if (component == 5)
        for (size_t k = 0; k < NV; ++k)
            if (k < in_nv)
                vvec_ref_push_back(variables, (ref)(1 + k));
}
size_t ComponentEntity_componentCount(ref self) { return 1; }
ref ComponentEntity_component__sz(ref self, size_t index) { return index == 0 ? 5 : 0; }
static sid type_string(int t)
{
    return t == Variable_InterfaceType_NONE ? SIDLIT_1 : t == Variable_InterfaceType_PRIVATE ? SIDLIT_2 : t == Variable_InterfaceType_PUBLIC ? SIDLIT_3 : SIDLIT_4;
}
/* the property's reading of "already sufficient" */
static bool suffices(sid have, int need)
{
    return need == Variable_InterfaceType_NONE || have == SIDLIT_4 || have == type_string(need);
}
void h_fix(void)
{
    havoc_heap();
    in_nv = nondet_size_t();
    __CPROVER_assume(in_nv <= NV);
    for (ref v = 1; v <= NV; ++v) {
        int t;
        __CPROVER_assume(t >= 0 && t <= 3);
        T[v] = t;
    }
    sid old1 = F_VariableImpl_mInterfaceType[1], old2 = F_VariableImpl_mInterfaceType[2];
    bool ok = Model_fixVariableInterfaces(9);
    bool expect = 1;
    for (ref v = 1; v <= NV; ++v)
        if (v <= in_nv && T[v] == Variable_InterfaceType_NONE)
            expect = 0;
    __CPROVER_assert(ok == expect, "returns false exactly when some variable's interface cannot be determined");
    for (ref v = 1; v <= NV; ++v) {
        sid old = v == 1 ? old1 : old2, now = F_VariableImpl_mInterfaceType[v];
        if (v > in_nv || T[v] == Variable_InterfaceType_NONE)
            __CPROVER_assert(now == old, "variables that are not (or cannot be) fixed keep their interface");
        else if (suffices(old, T[v]))
            __CPROVER_assert(now == old, "a variable whose interface already suffices is unchanged");
        else
            __CPROVER_assert(now == type_string(T[v]), "every other variable is fixed - also when another variable could not be - and gets exactly the required interface");
        if (v <= in_nv && T[v] != Variable_InterfaceType_NONE)
            __CPROVER_assert(suffices(now, T[v]), "afterwards the interface suffices for all equivalences");
    }
    CANARY_HERE();
}
#endif

#ifdef H_COMPAT
/* the validator's test against the repair's notion of sufficiency, on real strings:
 * Variable::permitsInterfaceType(t) true  ==>  validator's interfaceTypeIsCompatible(t, interface) */
void h_validator_compat(void)
{
    int in_t;
    __CPROVER_assume(in_t >= 1 && in_t <= 3);
    vstr in_s;
    __CPROVER_assume(in_s.n <= 18);
    F_VariableImpl_mInterfaceType[1] = in_s;
    bool permits = Variable_permitsInterfaceType(1, in_t);
    bool compat = interfaceTypeIsCompatible(in_t, in_s);
    if (permits)
        __CPROVER_assert(compat, "an interface the repair considers sufficient raises no interface issue in the validator");
    CANARY_HERE();
}
#endif
