#ifdef CANARY
#define CANARY_HERE() __CPROVER_assert(0, "CANARY reachable")
#else
#define CANARY_HERE()
#endif

#ifdef H_REQUIRED
#define PARENT(x) F_ParentedEntityImpl_mParent[x]
#define V_ 1
/* objects: 1 the variable, 2..4 its equivalent variables (canonical ids, list order), 5 its
 * component, 6..8 other components, 9 the model */
void h_interfaceTypeFor(void)
{
    bool in_pub, in_priv;
    int t = interfaceTypeFor((vpair_b_b){in_pub, in_priv});
    __CPROVER_assert(t == (in_pub && in_priv ? Variable_InterfaceType_PUBLIC_AND_PRIVATE
                                              : in_pub ? Variable_InterfaceType_PUBLIC
                                                       : in_priv ? Variable_InterfaceType_PRIVATE : Variable_InterfaceType_NONE),
                     "interfaceTypeFor maps (public needed, private needed) to the interface type");
    CANARY_HERE();
}
void h_required(void)
{
    havoc_heap();
    for (unsigned k = 0; k < HEAP_N; ++k)
        __alive[k] = 1;
    vvec_ref *le = &F_VariableImpl_mEquivalentVariables[V_];
    __CPROVER_assume(le->n <= MAXE);
    for (size_t k = 0; k < MAXE; ++k)
        le->d[k] = (ref)(2 + k);
    PARENT(V_) = 5;
    for (ref e = 2; e <= 4; ++e)
        __CPROVER_assume(PARENT(e) == 0 || (PARENT(e) >= 5 && PARENT(e) <= 8));
    for (ref c = 5; c <= 8; ++c)
        __CPROVER_assume(PARENT(c) == 0 || PARENT(c) == 9 || (PARENT(c) >= 5 && PARENT(c) <= 8 && PARENT(c) != c));
    PARENT(9) = 0;
    size_t ce_n = le->n;
    ref ce_p2 = PARENT(2), ce_p3 = PARENT(3), ce_p4 = PARENT(4), ce_pp5 = PARENT(5), ce_pp6 = PARENT(6), ce_pp7 = PARENT(7), ce_pp8 = PARENT(8);
    /* the property's own reading */
    bool bad = 0, pub = 0, priv = 0;
    for (size_t k = 0; k < MAXE; ++k)
        if (k < ce_n) {
            ref C = PARENT(2 + k), A = 5;
            if (C == 0)
                bad = 1; /* parentless equivalent variable */
            else if (PARENT(A) == PARENT(C) || PARENT(A) == C)
                pub = 1; /* sibling components (same component included), or C is the parent of A */
            else if (PARENT(C) == A)
                priv = 1; /* C is a child of A */
            else
                bad = 1; /* neither siblings nor parent and child */
        }
    vpair_b_b r = publicAndOrPrivateInterfaceTypeRequired(V_);
    if (bad)
        __CPROVER_assert(!r.first && !r.second, "an equivalence between unreachable components, or with a parentless variable, means the interface cannot be determined (false, false)");
    else if (ce_n > 0) {
        __CPROVER_assert(r.first == pub, "public interface required exactly when an equivalent variable lives in a sibling or in the parent component");
        __CPROVER_assert(r.second == priv, "private interface required exactly when an equivalent variable lives in a child component");
    }
    int t = determineInterfaceType(V_);
    __CPROVER_assert((t == Variable_InterfaceType_NONE) == (bad || ce_n == 0), "determineInterfaceType is NONE exactly in the undeterminable case (or without equivalences)");
    CANARY_HERE();
}
#endif

#ifdef H_FIX
#define NV 2
static int T[HEAP_N]; /* the required interface type of each variable: determineInterfaceType as a contract stub */
int determineInterfaceType(ref variable) { return T[variable]; }
static size_t in_nv;
void findAllVariablesWithEquivalences(ref component, vvec_ref *variables)
{
    /* not under contract: collects the variables that have equivalences (canonical ids 1, 2) */
    if (component == 5)
        for (size_t k = 0; k < NV; ++k)
            if (k < in_nv)
                vvec_ref_push_back(variables, (ref)(1 + k));
}
size_t ComponentEntity_componentCount(ref self) { return 1; }
ref ComponentEntity_component__sz(ref self, size_t index) { return index == 0 ? 5 : 0; }
static sid type_string(int t)
{
    return t == Variable_InterfaceType_NONE ? SIDLIT_1 : t == Variable_InterfaceType_PRIVATE ? SIDLIT_2 : t == Variable_InterfaceType_PUBLIC ? SIDLIT_3 : SIDLIT_4;
}
/* the property's reading of "already sufficient" */
static bool suffices(sid have, int need)
{
    return need == Variable_InterfaceType_NONE || have == SIDLIT_4 || have == type_string(need);
}
void h_fix(void)
{
    havoc_heap();
    in_nv = nondet_size_t();
    __CPROVER_assume(in_nv <= NV);
    for (ref v = 1; v <= NV; ++v) {
        int t;
        __CPROVER_assume(t >= 0 && t <= 3);
        T[v] = t;
    }
    sid old1 = F_VariableImpl_mInterfaceType[1], old2 = F_VariableImpl_mInterfaceType[2];
    bool ok = Model_fixVariableInterfaces(9);
    bool expect = 1;
    for (ref v = 1; v <= NV; ++v)
        if (v <= in_nv && T[v] == Variable_InterfaceType_NONE)
            expect = 0;
    __CPROVER_assert(ok == expect, "returns false exactly when some variable's interface cannot be determined");
    for (ref v = 1; v <= NV; ++v) {
        sid old = v == 1 ? old1 : old2, now = F_VariableImpl_mInterfaceType[v];
        if (v > in_nv || T[v] == Variable_InterfaceType_NONE)
            __CPROVER_assert(now == old, "variables that are not (or cannot be) fixed keep their interface");
        else if (suffices(old, T[v]))
            __CPROVER_assert(now == old, "a variable whose interface already suffices is unchanged");
        else
            __CPROVER_assert(now == type_string(T[v]), "every other variable is fixed - also when another variable could not be - and gets exactly the required interface");
        if (v <= in_nv && T[v] != Variable_InterfaceType_NONE)
            __CPROVER_assert(suffices(now, T[v]), "afterwards the interface suffices for all equivalences");
    }
    CANARY_HERE();
}
#endif

#ifdef H_COMPAT
/* the validator's test against the repair's notion of sufficiency, on real strings:
 * Variable::permitsInterfaceType(t) true  ==>  validator's interfaceTypeIsCompatible(t, interface) */
void h_validator_compat(void)
{
    int in_t;
    __CPROVER_assume(in_t >= 1 && in_t <= 3);
    vstr in_s;
    __CPROVER_assume(in_s.n <= 18);
    F_VariableImpl_mInterfaceType[1] = in_s;
    bool permits = Variable_permitsInterfaceType(1, in_t);
    bool compat = interfaceTypeIsCompatible(in_t, in_s);
    if (permits)
        __CPROVER_assert(compat, "an interface the repair considers sufficient raises no interface issue in the validator");
    CANARY_HERE();
}
#endif

#ifdef H_LINK
/* World: component 1 in model 9; its variables 2, 3 (canonical); units objects 4..7, each owned by
 * model 9, by the foreign model 8, or by no model; OWN / STD / the model's name table are ghosts.
 * Callees (container getters, owningModel, isStandardUnit) are contract stubs.                */
static ref OWN[HEAP_N];
static bool STD[HEAP_N];
static ref VUNITS[HEAP_N];      /* Variable::units */
static sid NAME[HEAP_N];
static size_t in_nvars;
ref owningModel(ref entity) { return entity ? OWN[entity] : 0; }
bool isStandardUnit(ref units) { return STD[units]; }
size_t Component_variableCount(ref self) { return in_nvars; }
ref Component_variable__sz(ref self, size_t index) { return index < in_nvars ? (ref)(2 + index) : 0; }
ref Variable_units(ref self) { return VUNITS[self]; }
void Variable_setUnits__ref(ref self, ref units) { VUNITS[self] = units; }
sid NamedEntity_name(ref self) { return NAME[self]; }
/* the model's own units: objects 4..7 owned by model 9 (first of a name wins) */
ref Model_units__s(ref self, sid name)
{
    for (ref u = 4; u <= 7; ++u)
        if (OWN[u] == self && NAME[u] == name)
            return u;
    return 0;
}
bool Model_hasUnits__s(ref self, sid name) { return Model_units__s(self, name) != 0; }
/* string concatenation for the descriptions: some string */

void h_link(void)
{
    in_nvars = nondet_size_t();
    __CPROVER_assume(in_nvars <= 2);
    for (unsigned k = 0; k < HEAP_N; ++k) {
        ref o;
        bool s;
        sid nm;
        ref vu;
        OWN[k] = o;
        STD[k] = s;
        NAME[k] = nm;
        VUNITS[k] = vu;
    }
    OWN[1] = 9;
    OWN[2] = 9;
    OWN[3] = 9;
    for (ref u = 4; u <= 7; ++u) {
        __CPROVER_assume(OWN[u] == 0 || OWN[u] == 8 || OWN[u] == 9);
        __CPROVER_assume(!(STD[u] && OWN[u] != 0)); /* a standard unit is referenced by name, no model owns it */
    }
    for (ref v = 2; v <= 3; ++v)
        __CPROVER_assume(VUNITS[v] == 0 || (VUNITS[v] >= 4 && VUNITS[v] <= 7));
    ref before2 = VUNITS[2], before3 = VUNITS[3];
    vvec_vpair_ref_s list = vvec_vpair_ref_s_new();
    bool ok = linkComponentVariableUnits(1, &list);
    bool expect_ok = 1;
    for (ref v = 2; v <= 3; ++v) {
        if ((size_t)(v - 2) >= in_nvars)
            continue;
        ref was = v == 2 ? before2 : before3, now = VUNITS[v];
        bool linked_before = was == 0 || STD[was] || OWN[was] == 9;
        if (linked_before)
            __CPROVER_assert(now == was, "linkUnits leaves variables whose units are already the model's own (or standard, or absent) untouched");
        else if (OWN[was] == 0 && Model_units__s(9, NAME[was]) != 0)
            __CPROVER_assert(now == Model_units__s(9, NAME[was]), "a variable naming units the model has gets the model's own units object of that name");
        else {
            __CPROVER_assert(now == was, "a variable whose units cannot be linked keeps them");
            expect_ok = 0;
        }
    }
    __CPROVER_assert(ok == expect_ok, "linkUnits reports failure exactly when some variable's units are missing from the model or belong to another model");
    if (ok) {
        for (ref v = 2; v <= 3; ++v)
            if ((size_t)(v - 2) < in_nvars) {
                ref now = VUNITS[v];
                __CPROVER_assert(now == 0 || STD[now] || (OWN[now] == 9 && now == Model_units__s(9, NAME[now])) || OWN[now] == 9,
                                 "after a successful linkUnits every variable naming non-standard units holds a units object owned by its own model");
            }
        __CPROVER_assert(!areComponentVariableUnitsUnlinked(1), "after a successful linkUnits, hasUnlinkedUnits is false for the component");
    }
    CANARY_HERE();
}
#endif

#ifdef H_CLEAN
/* World: model 9 with components [1, 2] (prefix), component 1 with child components [3, 4]
 * (prefix); units [5, 6] (prefix).  Emptiness of a child after cleaning is the recursive call's
 * own contract (induction on depth).  Container getters/removers are contract stubs over ghost
 * lists (their own obligations are C09's).                                                   */
typedef struct
{
    size_t n;
    ref d[3];
} rlist;
static void rlist_erase(rlist *v, size_t i)
{
    for (size_t k = i; k + 1 < v->n && k + 1 < 3; ++k)
        v->d[k] = v->d[k + 1];
    v->n--;
}
static rlist COMPS[HEAP_N];
static rlist UNITS_;
static size_t NVARS[HEAP_N], NRESETS[HEAP_N], NUNIT[HEAP_N];
static sid MATH[HEAP_N], NAME[HEAP_N], ID[HEAP_N];
static bool IMPORT[HEAP_N];
static bool EMPTY_AFTER[HEAP_N];   /* what the recursive call returns for a grandchild */
static bool VISITED[HEAP_N];
size_t ComponentEntity_componentCount(ref self) { return COMPS[self].n; }
ref ComponentEntity_component__sz(ref self, size_t i) { return i < COMPS[self].n ? COMPS[self].d[i] : 0; }
bool ComponentEntity_removeComponent__sz(ref self, size_t i)
{
    if (i >= COMPS[self].n)
        return 0;
    rlist_erase(&COMPS[self], i);
    return 1;
}
size_t Component_variableCount(ref self) { return NVARS[self]; }
size_t Component_resetCount(ref self) { return NRESETS[self]; }
sid Component_math(ref self) { return MATH[self]; }
sid NamedEntity_name(ref self) { return NAME[self]; }
sid Entity_id(ref self) { return ID[self]; }
bool ImportedEntity_isImport(ref self) { return IMPORT[self]; }
size_t Model_unitsCount(ref self) { return UNITS_.n; }
ref Model_units__sz(ref self, size_t i) { return i < UNITS_.n ? UNITS_.d[i] : 0; }
bool Model_removeUnits__sz(ref self, size_t i)
{
    if (i >= UNITS_.n)
        return 0;
    rlist_erase(&UNITS_, i);
    return 1;
}
size_t Units_unitCount(ref self) { return NUNIT[self]; }
bool traverseHierarchyAndRemoveIfEmpty__rec(ref component)
{
    VISITED[component] = 1; /* every child must be cleaned, whatever its parent looks like */
    return EMPTY_AFTER[component];
}
static void setup(void)
{
    for (unsigned k = 0; k < HEAP_N; ++k) {
        size_t a, b, c;
        sid m, nm, id;
        bool im, em;
        NVARS[k] = a;
        NRESETS[k] = b;
        NUNIT[k] = c;
        MATH[k] = m;
        NAME[k] = nm;
        ID[k] = id;
        IMPORT[k] = im;
        EMPTY_AFTER[k] = em;
        VISITED[k] = 0;
        COMPS[k].n = 0;
        __CPROVER_assume(a < 1000 && b < 1000);
    }
}
static bool own_empty(ref c) /* the documented definition of an empty component, children aside */
{
    return NVARS[c] + NRESETS[c] == 0 && MATH[c] == 0 && !IMPORT[c] && NAME[c] == 0 && ID[c] == 0;
}
void h_clean_component(void)
{
    setup();
    size_t in_nc;
    __CPROVER_assume(in_nc <= 2);
    COMPS[1].n = in_nc;
    COMPS[1].d[0] = 3;
    COMPS[1].d[1] = 4;
    bool r = traverseHierarchyAndRemoveIfEmpty(1);
    size_t kept = 0;
    for (size_t k = 0; k < 2; ++k)
        if (k < in_nc) {
            ref ch = (ref)(3 + k);
            __CPROVER_assert(VISITED[ch], "every child component is cleaned (also below an imported component)");
            bool listed = (COMPS[1].n > 0 && COMPS[1].d[0] == ch) || (COMPS[1].n > 1 && COMPS[1].d[1] == ch);
            __CPROVER_assert(listed == !EMPTY_AFTER[ch], "a child component is removed exactly when it is empty after cleaning; the others stay");
            if (!EMPTY_AFTER[ch])
                ++kept;
        }
    __CPROVER_assert(COMPS[1].n == kept, "nothing else is removed or added");
    if (kept == 2)
        __CPROVER_assert(COMPS[1].d[0] == 3 && COMPS[1].d[1] == 4, "the remaining children keep their order");
    __CPROVER_assert(r == (own_empty(1) && kept == 0), "a component is reported empty exactly by the documented definition");
    CANARY_HERE();
}
bool traverseHierarchyAndRemoveIfEmpty(ref component);
void h_clean_model(void)
{
    setup();
    size_t in_nc, in_nu;
    __CPROVER_assume(in_nc <= 2 && in_nu <= 2);
    COMPS[9].n = in_nc;
    COMPS[9].d[0] = 1;
    COMPS[9].d[1] = 2;
    UNITS_.n = in_nu;
    UNITS_.d[0] = 5;
    UNITS_.d[1] = 6;
    Model_clean(9);
    size_t keptc = 0, keptu = 0;
    for (size_t k = 0; k < 2; ++k) {
        if (k < in_nc) {
            ref ch = (ref)(1 + k);
            bool listed = (COMPS[9].n > 0 && COMPS[9].d[0] == ch) || (COMPS[9].n > 1 && COMPS[9].d[1] == ch);
            /* the top-level components have no children here: empty = the documented definition */
            __CPROVER_assert(listed == !own_empty(ch), "Model::clean removes exactly the components that are empty by the documented definition");
            if (!own_empty(ch))
                ++keptc;
        }
        if (k < in_nu) {
            ref u = (ref)(5 + k);
            bool empty_units = !IMPORT[u] && NAME[u] == 0 && ID[u] == 0 && NUNIT[u] == 0;
            bool listed = (UNITS_.n > 0 && UNITS_.d[0] == u) || (UNITS_.n > 1 && UNITS_.d[1] == u);
            __CPROVER_assert(listed == !empty_units, "Model::clean removes exactly the units that are empty by the documented definition");
            if (!empty_units)
                ++keptu;
        }
    }
    __CPROVER_assert(COMPS[9].n == keptc && UNITS_.n == keptu, "Model::clean leaves everything else untouched");
    CANARY_HERE();
}
#endif
