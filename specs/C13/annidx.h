/* C13, annotator side, DATA contract of the id index: "each newly assigned identifier differs from every identifier
 * present anywhere in the model" rests on AnnotatorImpl::listIdsAndItems() building an index (mIdList, a multimap from
 * identifier to item) whose KEYS contain every identifier present in the model; makeUniqueId() consults exactly these keys.
 * The effect slices (effects.h) abstract this build to the single effect "list rebuilt"; here the build itself is under
 * contract, with the same ghost-element statement as the printer-side collection (listids.h):
 * for one arbitrary identifier Z, if the model, a units (its id, the id of one of its unit children, the id of its
 * import source - also when the units is imported) or a component subtree carries Z, Z is a key of the index afterwards.
 * The multimap is lowered KEYS ONLY (tools/cxx2c.py): the mapped AnyCellmlElement values are dropped, and the calls
 * that build them are frame-nothing contract stubs.  The component part, listComponentIdsAndItems(), is an ASSUMED
 * contract here (its duplicate search walks multimap ranges and reads the mapped values: outside the lowered subset).
 * Unbounded: every loop carries a loop contract at an arbitrary ghost index (GU units, GI unit child, GC component). */
#ifndef C13_ANNIDX_H
#define C13_ANNIDX_H
#define OBJ(x) ((x) != 0 && (x) < HEAP_N)
bool __alive[HEAP_N];
size_t __addr[HEAP_N];
size_t G, H;
#define Z vset_s_Z
#define SELF_ 1
#define CG_ 6
#define UG_ 7
#define OTHER_ 9
size_t GC, GU, GI;
sid g_id[HEAP_N], g_enc[HEAP_N], g_unitid;
ref g_imp[HEAP_N];
size_t g_nchild, g_nunits, g_nunit;
bool g_sub; /* the subtree of child CG carries Z */

#define PURE __CPROVER_assigns()
#define __FC_Entity_id __CPROVER_requires(OBJ(self)) __CPROVER_ensures(__CPROVER_return_value == g_id[self]) PURE
#define __FC_ComponentEntity_encapsulationId __CPROVER_requires(OBJ(self)) __CPROVER_ensures(__CPROVER_return_value == g_enc[self]) PURE
#define __FC_ImportedEntity_importSource __CPROVER_requires(OBJ(self)) __CPROVER_ensures(__CPROVER_return_value == g_imp[self] && __CPROVER_return_value < HEAP_N) PURE
#define __FC_ImportedEntity_isImport __CPROVER_requires(OBJ(self)) __CPROVER_ensures(__CPROVER_return_value == (g_imp[self] != 0)) PURE
#define __FC_ComponentEntity_componentCount __CPROVER_requires(self == SELF_) __CPROVER_ensures(__CPROVER_return_value == g_nchild) PURE
#define __FC_ComponentEntity_component__sz __CPROVER_requires(self == SELF_) __CPROVER_ensures(__CPROVER_return_value == (index == GC ? CG_ : OTHER_ + 2)) PURE
#define __FC_Model_unitsCount __CPROVER_requires(self == SELF_) __CPROVER_ensures(__CPROVER_return_value == g_nunits) PURE
#define __FC_Model_units__sz __CPROVER_requires(self == SELF_) __CPROVER_ensures(__CPROVER_return_value == (index == GU ? UG_ : OTHER_ + 1)) PURE
#define __FC_Units_unitCount __CPROVER_requires(OBJ(self)) __CPROVER_ensures(self == UG_ ==> __CPROVER_return_value == g_nunit) PURE
#define __FC_Units_unitAttributes__sz_s_s_d_d_s                                                \
    __CPROVER_requires(OBJ(self) && __CPROVER_w_ok(id, sizeof(*id)) && __CPROVER_w_ok(reference, sizeof(*reference)) && __CPROVER_w_ok(prefix, sizeof(*prefix)) && \
                       __CPROVER_w_ok(exponent, sizeof(*exponent)) && __CPROVER_w_ok(multiplier, sizeof(*multiplier))) \
    __CPROVER_assigns(*id, *reference, *prefix, *exponent, *multiplier)                        \
    __CPROVER_ensures((self == UG_ && index == GI) ==> *id == g_unitid)
/* construction of the mapped values (dropped by the keys-only lowering): some object, nothing visible changes */
#define __FC_AnyCellmlElement_AnyCellmlElementImpl_create __CPROVER_ensures(OBJ(__CPROVER_return_value)) PURE
#define __FC_UnitsItem_create __CPROVER_ensures(OBJ(__CPROVER_return_value)) PURE
#define __FC_AnyCellmlElement_AnyCellmlElementImpl_setModel __CPROVER_requires(OBJ(self)) PURE
#define __FC_AnyCellmlElement_AnyCellmlElementImpl_setUnits __CPROVER_requires(OBJ(self)) PURE
#define __FC_AnyCellmlElement_AnyCellmlElementImpl_setUnitsItem __CPROVER_requires(OBJ(self)) PURE
#define __FC_AnyCellmlElement_AnyCellmlElementImpl_setImportSource __CPROVER_requires(OBJ(self)) PURE
#define __FC_AnyCellmlElement_AnyCellmlElementImpl_setEncapsulation __CPROVER_requires(OBJ(self)) PURE
/* ASSUMED: the component part collects the subtree's ids and removes nothing (its printer-side twin listComponentIds is proved in listids.h) */
#define __FC_Annotator_AnnotatorImpl_listComponentIdsAndItems                                  \
    __CPROVER_requires(OBJ(component) && __CPROVER_w_ok(idList, sizeof(*idList)))              \
    __CPROVER_assigns(*idList)                                                                 \
    __CPROVER_ensures((component == CG_ && g_sub) ==> idList->has_z)                           \
    __CPROVER_ensures(__CPROVER_old(idList->has_z) ==> idList->has_z)

/* the index of the model: own ids, every units (id, import source id - imported or not -, unit children ids), every component subtree */
#define UG_CARRIES (g_id[UG_] == Z || (g_imp[UG_] != 0 && g_id[g_imp[UG_]] == Z) || (GI < g_nunit && g_unitid == Z))
#define MODEL_CARRIES (g_id[SELF_] == Z || g_enc[SELF_] == Z || (GU < g_nunits && UG_CARRIES) || (GC < g_nchild && g_sub))
#define __FC_Annotator_AnnotatorImpl_listIdsAndItems                                           \
    __CPROVER_requires(model == SELF_ && Z != 0)                                               \
    __CPROVER_assigns()                                                                        \
    __CPROVER_ensures(MODEL_CARRIES ==> __CPROVER_return_value.has_z)
#define MONO2 __CPROVER_loop_invariant(__CPROVER_loop_entry(idList.has_z) ==> idList.has_z)
#define __LC_Annotator_AnnotatorImpl_listIdsAndItems_0 __CPROVER_assigns(LV, id, idList.has_z) MONO2 __CPROVER_loop_invariant((LV > GU && GU < g_nunits && UG_CARRIES) ==> idList.has_z)
#define __LC_Annotator_AnnotatorImpl_listIdsAndItems_1 __CPROVER_assigns(LV, id, idList.has_z) MONO2 __CPROVER_loop_invariant((units == UG_ && LV > GI && GI < g_nunit && g_unitid == Z) ==> idList.has_z)
#define __LC_Annotator_AnnotatorImpl_listIdsAndItems_2 __CPROVER_assigns(LV, idList.has_z) MONO2 __CPROVER_loop_invariant((LV > GC && GC < g_nchild && g_sub) ==> idList.has_z)
#endif
