/* C13, printer side: "Printer::printModel(model, true) writes unique ids" rests on utilities.cpp listIds() /
 * listComponentIds() collecting EVERY identifier present in the model, so that makeUniqueId(IdList&) avoids them.
 *
 * Completeness is stated for one arbitrary identifier Z (the ghost element of the set model, models/pointwise.h):
 * if any element reached from the component / model carries Z, then Z is in the list afterwards; nothing is
 * ever removed.  Where the code loops, the element is the one at an arbitrary ghost index (GV, GE, GR, GC, GU, GI):
 * every index is that index for some value of the ghost.  The getters are contract stubs reading ghost tables
 * (their own obligations are C09's).  Unbounded: every loop carries a loop contract.
 *
 * World: component/model 1, its import source 2, variable VG 3 with equivalent variable EQ 4, reset RG 5, child CG 6,
 * units UG 7 with import source 8; 9..11 stand for "some other" variable / reset / child / units.             */
#ifndef C13_LISTIDS_H
#define C13_LISTIDS_H
#define OBJ(x) ((x) != 0 && (x) < HEAP_N)
bool __alive[HEAP_N];
size_t __addr[HEAP_N];
size_t G, H;
#define Z vset_s_Z
#define SELF_ 1
#define VG_ 3
#define EQ_ 4
#define RG_ 5
#define CG_ 6
#define UG_ 7
#define OTHER_ 9
size_t GV, GE, GR, GC, GU, GI;
sid g_id[HEAP_N], g_enc[HEAP_N], g_tvid[HEAP_N], g_rvid[HEAP_N], g_map, g_conn, g_unitid;
ref g_imp[HEAP_N];
size_t g_nvar, g_neq, g_nres, g_nchild, g_nunits, g_nunit;
bool g_sub; /* the subtree of child CG carries Z */

#define PURE __CPROVER_assigns()
#define __FC_Entity_id __CPROVER_requires(OBJ(self)) __CPROVER_ensures(__CPROVER_return_value == g_id[self]) PURE
#define __FC_ComponentEntity_encapsulationId __CPROVER_requires(OBJ(self)) __CPROVER_ensures(__CPROVER_return_value == g_enc[self]) PURE
#define __FC_ImportedEntity_importSource __CPROVER_requires(OBJ(self)) __CPROVER_ensures(__CPROVER_return_value == g_imp[self] && __CPROVER_return_value < HEAP_N) PURE
#define __FC_Reset_testValueId __CPROVER_requires(OBJ(self)) __CPROVER_ensures(__CPROVER_return_value == g_tvid[self]) PURE
#define __FC_Reset_resetValueId __CPROVER_requires(OBJ(self)) __CPROVER_ensures(__CPROVER_return_value == g_rvid[self]) PURE
#define __FC_Component_variableCount __CPROVER_requires(self == SELF_) __CPROVER_ensures(__CPROVER_return_value == g_nvar) PURE
#define __FC_Component_variable__sz __CPROVER_requires(self == SELF_) __CPROVER_ensures(__CPROVER_return_value == (index == GV ? VG_ : OTHER_)) PURE
#define __FC_Variable_equivalentVariableCount __CPROVER_requires(OBJ(self)) __CPROVER_ensures(self == VG_ ==> __CPROVER_return_value == g_neq) PURE
#define __FC_Variable_equivalentVariable __CPROVER_requires(OBJ(self)) __CPROVER_ensures(__CPROVER_return_value == ((self == VG_ && index == GE) ? EQ_ : OTHER_ + 1)) PURE
#define __FC_Variable_equivalenceMappingId __CPROVER_requires(OBJ(variable1) && OBJ(variable2)) __CPROVER_ensures((variable1 == VG_ && variable2 == EQ_) ==> __CPROVER_return_value == g_map) PURE
#define __FC_Variable_equivalenceConnectionId __CPROVER_requires(OBJ(variable1) && OBJ(variable2)) __CPROVER_ensures((variable1 == VG_ && variable2 == EQ_) ==> __CPROVER_return_value == g_conn) PURE
#define __FC_Component_resetCount __CPROVER_requires(self == SELF_) __CPROVER_ensures(__CPROVER_return_value == g_nres) PURE
#define __FC_Component_reset __CPROVER_requires(self == SELF_) __CPROVER_ensures(__CPROVER_return_value == (index == GR ? RG_ : OTHER_ + 1)) PURE
#define __FC_ComponentEntity_componentCount __CPROVER_requires(self == SELF_) __CPROVER_ensures(__CPROVER_return_value == g_nchild) PURE
#define __FC_ComponentEntity_component__sz __CPROVER_requires(self == SELF_) __CPROVER_ensures(__CPROVER_return_value == (index == GC ? CG_ : OTHER_ + 2)) PURE
#define __FC_Model_unitsCount __CPROVER_requires(self == SELF_) __CPROVER_ensures(__CPROVER_return_value == g_nunits) PURE
#define __FC_Model_units__sz __CPROVER_requires(self == SELF_) __CPROVER_ensures(__CPROVER_return_value == (index == GU ? UG_ : OTHER_ + 1)) PURE
#define __FC_Units_unitCount __CPROVER_requires(OBJ(self)) __CPROVER_ensures(self == UG_ ==> __CPROVER_return_value == g_nunit) PURE
#define __FC_Units_unitAttributes__sz_s_s_d_d_s                                                \
    __CPROVER_requires(OBJ(self) && __CPROVER_w_ok(id, sizeof(*id)) && __CPROVER_w_ok(reference, sizeof(*reference)) && __CPROVER_w_ok(prefix, sizeof(*prefix)) && \
                       __CPROVER_w_ok(exponent, sizeof(*exponent)) && __CPROVER_w_ok(multiplier, sizeof(*multiplier))) \
    __CPROVER_assigns(*id, *reference, *prefix, *exponent, *multiplier)                        \
    __CPROVER_ensures((self == UG_ && index == GI) ==> *id == g_unitid)

/* what "the component carries Z" means, at the ghost indices */
#define VG_CARRIES (g_id[VG_] == Z || (GE < g_neq && (g_map == Z || g_conn == Z)))
#define RG_CARRIES (g_id[RG_] == Z || g_tvid[RG_] == Z || g_rvid[RG_] == Z)
#define OWN_CARRIES(c) (g_id[c] == Z || (g_imp[c] != 0 && g_id[g_imp[c]] == Z) || g_enc[c] == Z)
#define COMPONENT_CARRIES(c) (OWN_CARRIES(c) || (GV < g_nvar && VG_CARRIES) || (GR < g_nres && RG_CARRIES) || (GC < g_nchild && g_sub))
/* listComponentIds(component, idList): complete for the subtree, and nothing is removed.  The same contract is the
 * summary of the recursive call on a child (whose subtree carries Z exactly when g_sub says so)                 */
#define LIST_COMPONENT_CONTRACT(carries)                                                       \
    __CPROVER_requires(OBJ(component) && Z != 0 && __CPROVER_is_fresh(idList, sizeof(*idList))) \
    __CPROVER_assigns(*idList)                                                                 \
    __CPROVER_ensures((carries) ==> idList->has_z)                                             \
    __CPROVER_ensures(__CPROVER_old(idList->has_z) ==> idList->has_z)
#define __FC_listComponentIds LIST_COMPONENT_CONTRACT(component == SELF_ ? COMPONENT_CARRIES(SELF_) : (component == CG_ && g_sub))
#define MONO __CPROVER_loop_invariant(__CPROVER_loop_entry(idList->has_z) ==> idList->has_z)
#define __LC_listComponentIds_0 __CPROVER_assigns(LV, id, idList->has_z) MONO __CPROVER_loop_invariant((LV > GV && GV < g_nvar && VG_CARRIES) ==> idList->has_z)
#define __LC_listComponentIds_1 __CPROVER_assigns(LV, id, idList->has_z) MONO __CPROVER_loop_invariant((variable == VG_ && LV > GE && GE < g_neq && (g_map == Z || g_conn == Z)) ==> idList->has_z)
#define __LC_listComponentIds_2 __CPROVER_assigns(LV, id, idList->has_z) MONO __CPROVER_loop_invariant((LV > GR && GR < g_nres && RG_CARRIES) ==> idList->has_z)
#define __LC_listComponentIds_3 __CPROVER_assigns(LV, idList->has_z) MONO __CPROVER_loop_invariant((LV > GC && GC < g_nchild && g_sub) ==> idList->has_z)

/* listIds(model): the model's own ids, every units (its id, its import source's id, the ids of its unit children) and every component subtree */
#define UG_CARRIES (g_id[UG_] == Z || (g_imp[UG_] != 0 && g_id[g_imp[UG_]] == Z) || (GI < g_nunit && g_unitid == Z))
#define MODEL_CARRIES (g_id[SELF_] == Z || g_enc[SELF_] == Z || (GU < g_nunits && UG_CARRIES) || (GC < g_nchild && g_sub))
#define __FC_listIds                                                                           \
    __CPROVER_requires(model == SELF_ && Z != 0)                                               \
    __CPROVER_assigns()                                                                        \
    __CPROVER_ensures(MODEL_CARRIES ==> __CPROVER_return_value.has_z)
#define MONO2 __CPROVER_loop_invariant(__CPROVER_loop_entry(idList.has_z) ==> idList.has_z)
#define __LC_listIds_0 __CPROVER_assigns(LV, id, idList.has_z) MONO2 __CPROVER_loop_invariant((LV > GU && GU < g_nunits && UG_CARRIES) ==> idList.has_z)
#define __LC_listIds_1 __CPROVER_assigns(LV, id, idList.has_z) MONO2 __CPROVER_loop_invariant((units == UG_ && LV > GI && GI < g_nunit && g_unitid == Z) ==> idList.has_z)
#define __LC_listIds_2 __CPROVER_assigns(LV, idList.has_z) MONO2 __CPROVER_loop_invariant((LV > GC && GC < g_nchild && g_sub) ==> idList.has_z)
#endif
