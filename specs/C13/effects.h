/* C13 - typestate of the annotator's id index, over the effect slices of annotator.cpp.
 *
 * Ghost state:  L  "mIdList lists every identifier currently present in the model" (complete)
 *               X  "mIdList has no entry for an identifier its item no longer carries" (exact)
 *               Hh "mHash is the hash of the model as it is now"
 * Invariant I:  Hh ==> L && X     (a current hash certifies a complete and exact list)
 * The user may edit the model between any two annotator calls: every public entry point is
 * entered with ARBITRARY (L, Hh) satisfying I.
 *
 * Obligations (from the property: "each newly assigned identifier differs from every identifier
 * present anywhere in the model at the time of the call, even if the model was edited after it
 * was handed to the annotator"; "item(id)/ids()/duplicateIds()/itemCount() agree with the model"):
 *   - makeUniqueId() is reached only with L (stale extra entries only make more identifiers look taken)
 *   - the id list is read by a lookup only with L and X
 *   - mHash is marked current only with L and X, and I holds again when the entry point returns.  */
#ifndef C13_EFFECTS_H
#define C13_EFFECTS_H
static bool L, X, Hh, pend, saveL;
/* invariant of EVERY loop of the slices (a loop contract, so no loop is unwound): a loop never
 * loses a complete list, never leaves an identifier written but not yet listed, and keeps I */
#define __LC_SLICE                                                                            \
    __CPROVER_assigns(L, X, Hh, pend, saveL)                                                  \
    __CPROVER_loop_invariant(!pend && (__CPROVER_loop_entry(L) ==> L) && (!Hh || (L && X)))
/* a loop that only reads the list (and logs issues): nothing of the ghost state changes */
#define __LC_SLICE_RO __CPROVER_assigns() __CPROVER_loop_invariant(1)
/* summary of a directly recursive function (component trees), used at its recursive call and
 * checked for the function itself by h_rec_*: same relation as the loop invariant */
#define SLICE_REC_SUMMARY()                                                                   \
    do {                                                                                      \
        __CPROVER_assert(!pend && L, "recursive call: entered with a complete id list and no identifier pending"); \
        Hh = nondet_bool();                                                                   \
        X = nondet_bool();                                                                    \
        __CPROVER_assume(!Hh || X);                                                           \
        saveL = nondet_bool();                                                                \
    } while (0)
/* update(): trusted contract (DESIGN 3/C13): generateHash() is sensitive to every identifier, so
 * an unchanged hash means an unchanged model; otherwise the list is rebuilt */
static void E_Annotator_AnnotatorImpl_update(void)
{
    if (!Hh) {
        L = 1;
        X = 1;
    }
    Hh = 1;
    pend = 0;
}
static void E_Annotator_AnnotatorImpl_makeUniqueId(void)
{
    __CPROVER_assert(L, "makeUniqueId() consults an id list that contains every identifier present in the model (update() must come first)");
}
/* an identifier is written into the model: the hash is stale; the list lacks it until the insert */
static void E_id_set(void)
{
    Hh = 0;
    X = 0; /* the identifier the item carried before (if any) may still be listed */
    if (!pend) {
        saveL = L;
        pend = 1;
    }
    L = 0;
}
static void E_list_insert(void)
{
    if (pend) {
        L = saveL;
        pend = 0;
    }
}
static void E_id_removed(void) { Hh = 0; X = 0; } /* a stale extra entry keeps the list a superset, but not exact */
static void E_list_erase(void) {}
static void E_list_clear(void) { L = 0; X = 1; }
static void E_list_rebuilt(void) { L = 1; X = 1; pend = 0; }
static void E_list_assigned(void) { L = nondet_bool(); X = nondet_bool(); }
static void E_list_read(void)
{
    __CPROVER_assert(L, "lookups (item, ids, duplicateIds, itemCount, isUnique) read an id list that is complete for the model as it is now");
    __CPROVER_assert(X, "lookups read an id list without stale entries (an entry for an identifier its item no longer carries)");
}
/* the number of entries (assignAllIds()/assignIds() compare it before and after to report whether anything was assigned): not a lookup */
static void E_list_size(void) {}
static void E_mHash_assign_zero(void) { Hh = 0; }
static void E_mHash_assign_generateHash(void)
{
    __CPROVER_assert(L, "the hash is marked current only when the id list is complete");
    __CPROVER_assert(X, "the hash is marked current only when the id list has no stale entry");
    Hh = 1;
}
static void E_mHash_assign_other(void) { Hh = nondet_bool(); __CPROVER_assert(!Hh || (L && X), "the hash is marked current only when the id list is complete and exact"); }
static void E_issues_cleared(void) {}
static void E_issue_added(void) {}
#endif
