#ifdef CANARY
#define CANARY_HERE() __CPROVER_assert(0, "CANARY reachable")
#else
#define CANARY_HERE()
#endif
void listComponentIds__rec(ref component, vset_s *idList)
LIST_COMPONENT_CONTRACT(component == CG_ && g_sub);
static void init_ids(void)
{
    havoc_heap(); /* every object field the lowered code reads - also one a change starts to read - is arbitrary */
    for (unsigned k = 0; k < HEAP_N; ++k) {
        g_id[k] = nondet_uint64_t();
        g_enc[k] = nondet_uint64_t();
        g_tvid[k] = nondet_uint64_t();
        g_rvid[k] = nondet_uint64_t();
        g_imp[k] = nondet_ref();
        __CPROVER_assume(g_imp[k] == 0 || g_imp[k] == 2 || g_imp[k] == 8);
    }
    g_map = nondet_uint64_t();
    g_conn = nondet_uint64_t();
    g_unitid = nondet_uint64_t();
    GV = nondet_size_t(); GE = nondet_size_t(); GR = nondet_size_t(); GC = nondet_size_t(); GU = nondet_size_t(); GI = nondet_size_t();
    g_nvar = nondet_size_t(); g_neq = nondet_size_t(); g_nres = nondet_size_t(); g_nchild = nondet_size_t(); g_nunits = nondet_size_t(); g_nunit = nondet_size_t();
    g_sub = nondet_bool();
    Z = nondet_uint64_t();
}
void h_listComponentIds(void)
{
    init_ids();
    vset_s *in_list;
    listComponentIds(SELF_, in_list);
    CANARY_HERE();
}
void h_listIds(void)
{
    init_ids();
    listIds(SELF_);
    CANARY_HERE();
}
