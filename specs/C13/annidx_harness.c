#ifdef CANARY
#define CANARY_HERE() __CPROVER_assert(0, "CANARY reachable")
#else
#define CANARY_HERE()
#endif
static void init_idx(void)
{
    havoc_heap(); /* every object field the lowered code reads - also one a change starts to read - is arbitrary */
    for (unsigned k = 0; k < HEAP_N; ++k) {
        g_id[k] = nondet_uint64_t();
        g_enc[k] = nondet_uint64_t();
        g_imp[k] = nondet_ref();
        __CPROVER_assume(g_imp[k] == 0 || g_imp[k] == 2 || g_imp[k] == 8);
    }
    g_unitid = nondet_uint64_t();
    GC = nondet_size_t(); GU = nondet_size_t(); GI = nondet_size_t();
    g_nchild = nondet_size_t(); g_nunits = nondet_size_t(); g_nunit = nondet_size_t();
    g_sub = nondet_bool();
    Z = nondet_uint64_t();
}
void h_listIdsAndItems(void)
{
    init_idx();
    ref in_self = nondet_ref();
    Annotator_AnnotatorImpl_listIdsAndItems(in_self, SELF_);
    CANARY_HERE();
}
