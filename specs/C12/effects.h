/* C12 - purity obligations over the effect slices of the services (tools/slicer.py).
 *
 * (1) each parse / validate / analyse / resolve / flatten call starts from an empty issue list:
 *     on every path removeAllIssues() comes before the first addIssue() and before the return;
 * (2) no hidden state: a container member of a service's implementation object that a call
 *     reads or extends has been reset earlier IN THE SAME CALL, unless it is documented state of
 *     the object (allow-list in checks/C12.py, with a reason per entry);
 * (3) process-global libxml2 state: a call that finds xmlKeepBlanksDefault at its default (keep)
 *     leaves it there.                                                                       */
#ifndef C12_EFFECTS_H
#define C12_EFFECTS_H
static bool cleared;    /* removeAllIssues() has run in this call */
static bool track_issues; /* this entry point is one of parse / validate / analyse / resolve / flatten */
static bool keepBlanks; /* libxml2's xmlKeepBlanksDefault value (1 = default) */
#define __LC_SLICE __CPROVER_assigns(cleared, keepBlanks, SCRATCH_FLAGS) __CPROVER_loop_invariant((__CPROVER_loop_entry(cleared) ==> cleared) SCRATCH_INV KB_INV)
#define SLICE_REC_SUMMARY() do { } while (0)
static void E_issues_cleared(void) { cleared = 1; }
static void E_issue_added(void)
{
    __CPROVER_assert(!track_issues || cleared, "an issue is added only after this call has emptied the issue list");
}
static void E_xml_keepblanks_0(void) { keepBlanks = 0; }
static void E_xml_keepblanks_1(void) { keepBlanks = 1; }
static void E_xml_other(void) {}
#endif
