/* C18 - AnalyserModel::areEquivalentVariables answers exactly what the uncached utility
 * answers, regardless of object addresses, query order and repetition.
 *
 * R(a,b): the uncached utility libcellml::areEquivalentVariables, a contract stub here: an
 * arbitrary *symmetric* relation that contains identity (symmetry of the equivalence lists is
 * C09's invariant; the graph search itself is checked by the bounded h_search_* harnesses).  */
#ifndef C18_SPEC_H
#define C18_SPEC_H

bool Rtab[HEAP_N][HEAP_N];
uintptr_t __addr[HEAP_N];
bool __alive[HEAP_N];

static inline bool spec_R(ref a, ref b)
{
    if (a == b)
        return 1;
    return a < b ? Rtab[a][b] : Rtab[b][a];
}

/* what the harness assumes about the addresses of two distinct live objects: what an allocator
 * can produce on x86-64 user space - non-null, 16-byte aligned, below 2^47, distinct          */
static inline bool spec_plausible_address(uintptr_t x)
{
    return x != 0 && (x & 15) == 0 && x < ((uintptr_t)1 << 47);
}

/* how the harness calls / compares the key (the lowered helper of analysermodel.cpp) */
#define CACHE_KEY_T vpair_sz_sz
#define CACHE_KEY_FN(a, b) equivalentVariablesCacheKey(a, b)
#define CACHE_KEY_EQ(x, y) vpair_sz_sz_keyeq(x, y)

#endif
