#ifdef CANARY
#define CANARY_HERE() __CPROVER_assert(0, "CANARY reachable")
#else
#define CANARY_HERE()
#endif

/* arbitrary equivalence lists over the variables 1..HEAP_N-1, and reachability of the target computed from them */
static void init_graph(void)
{
    havoc_heap();
    for (unsigned k = 0; k < HEAP_N; ++k) {
        g_neq[k] = nondet_size_t();
        __CPROVER_assume(g_neq[k] <= MAXW);
        for (unsigned j = 0; j < MAXW; ++j) {
            g_eqv[k][j] = nondet_ref();
            __CPROVER_assume(OBJ(g_eqv[k][j]));
        }
    }
    g_v1 = nondet_ref();
    __CPROVER_assume(g_v1 < HEAP_N);
    for (unsigned k = 0; k < HEAP_N; ++k)
        Reach[k] = (k == g_v1);
    for (unsigned round = 0; round < HEAP_N; ++round)
        for (unsigned k = 1; k < HEAP_N; ++k)
            for (unsigned j = 0; j < MAXW; ++j)
                if (j < g_neq[k] && Reach[g_eqv[k][j]])
                    Reach[k] = 1;
}
/* one call of the search from an arbitrary intermediate state (the induction step) */
void h_search_step(void)
{
    init_graph();
    ref in_v2 = nondet_ref();
    vvec_ref *in_tested;
    struct ARGS_haveEquivalentVariables a; /* parameters the spec does not know (added by a change) stay unconstrained */
    a.variable1 = g_v1;
    a.variable2 = in_v2;
    a.testedVariables = in_tested;
    CALLN_haveEquivalentVariables(a);
    CANARY_HERE();
}
/* the entry point: the answer is reachability */
void h_search_entry(void)
{
    init_graph();
    ref in_self = nondet_ref(), in_other = nondet_ref();
    __CPROVER_assume(OBJ(in_self) && in_other < HEAP_N);
    F_VariableImpl_mVariable[in_self] = in_self;
    g_v1 = in_self;
    for (unsigned k = 0; k < HEAP_N; ++k)
        Reach[k] = (k == g_v1);
    for (unsigned round = 0; round < HEAP_N; ++round)
        for (unsigned k = 1; k < HEAP_N; ++k)
            for (unsigned j = 0; j < MAXW; ++j)
                if (j < g_neq[k] && Reach[g_eqv[k][j]])
                    Reach[k] = 1;
    bool r = Variable_VariableImpl_hasIndirectEquivalentVariable(in_self, in_other);
    if (in_other != in_self)
        __CPROVER_assert((r != 0) == (in_other != 0 && Reach[in_other] != 0), "hasIndirectEquivalentVariable(v): true exactly when v reaches this variable along equivalence lists");
    else
        __CPROVER_assert(!r, "a variable is not reported as indirectly equivalent to itself (areEquivalentVariables adds the reflexive case)");
    CANARY_HERE();
}
