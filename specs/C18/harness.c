#ifdef CANARY
#define CANARY_HERE() __CPROVER_assert(0, "CANARY reachable")
#else
#define CANARY_HERE()
#endif

#ifdef UNIT_CACHE
/* the uncached utility: stub with the exact meaning "R" */
bool areEquivalentVariables(ref variable1, ref variable2)
{
    return spec_R(variable1, variable2);
}

/* Key function against the property: two queries share a cache key exactly when they ask about
 * the same unordered pair - over the FULL 64-bit domain of all four addresses (loop-free: a
 * complete decision), and again over the addresses an x86-64 allocator can produce.          */
void h_key_injective(void)
{
    size_t in_a, in_b, in_c, in_d;
#ifdef PLAUSIBLE
    __CPROVER_assume(spec_plausible_address(in_a) && spec_plausible_address(in_b) && spec_plausible_address(in_c) && spec_plausible_address(in_d));
#endif
    bool same_pair = (in_a == in_c && in_b == in_d) || (in_a == in_d && in_b == in_c);
    CACHE_KEY_T k1 = CACHE_KEY_FN(in_a, in_b);
    CACHE_KEY_T k2 = CACHE_KEY_FN(in_c, in_d);
    __CPROVER_assert(CACHE_KEY_EQ(k1, k2) == same_pair,
                     "cache key identifies the unordered pair of addresses (equal keys <=> same pair)");
    CANARY_HERE();
}

void h_key_injective_plausible(void)
{
    h_key_injective();
}

static void assume_objects(ref a, ref b, ref c, ref d)
{
    __CPROVER_assume(a != 0 && a < HEAP_N && b != 0 && b < HEAP_N && c != 0 && c < HEAP_N && d != 0 && d < HEAP_N);
    ref o[4] = {a, b, c, d};
    for (int i = 0; i < 4; ++i) {
        __CPROVER_assume(spec_plausible_address(__addr[o[i]]));
        for (int j = 0; j < i; ++j)
            __CPROVER_assume(o[i] == o[j] || __addr[o[i]] != __addr[o[j]]);
    }
}

/* Two queries on one AnalyserModel whose cache starts empty: whatever the first query (p1,p2)
 * was, the second query (q1,q2) must return R(q1,q2).  std::map::emplace never overwrites, so a
 * cached value is always the one stored by the FIRST query with that key: this lemma for all
 * (p, q) therefore covers every query history, order and repetition.                         */
void h_cache_two_queries(void)
{
    ref in_self, in_p1, in_p2, in_q1, in_q2;
    havoc_heap(); /* every object field the lowered code reads - also one a change starts to read - is arbitrary */
    for (unsigned k = 0; k < HEAP_N; ++k)
        __alive[k] = nondet_bool(); /* ... and so is which objects are still alive (weak_ptr::lock()) */
    __CPROVER_havoc_object(Rtab);
    __CPROVER_havoc_object(__addr);
    __CPROVER_assume(in_self != 0 && in_self < HEAP_N);
    assume_objects(in_p1, in_p2, in_q1, in_q2);
    F_AnalyserModelImpl_mCachedEquivalentVariables[in_self].n = 0;
    size_t ce_a = __addr[in_p1], ce_b = __addr[in_p2], ce_c = __addr[in_q1], ce_d = __addr[in_q2];
    bool ce_Rp = spec_R(in_p1, in_p2), ce_Rq = spec_R(in_q1, in_q2);
    bool r1 = AnalyserModel_areEquivalentVariables(in_self, in_p1, in_p2);
    __CPROVER_assert(r1 == ce_Rp, "first query on an empty cache returns the uncached answer");
    bool r2 = AnalyserModel_areEquivalentVariables(in_self, in_q1, in_q2);
    __CPROVER_assert(r2 == ce_Rq, "a query returns the uncached answer whatever was queried before");
    bool r3 = AnalyserModel_areEquivalentVariables(in_self, in_q1, in_q2);
    __CPROVER_assert(r3 == r2, "repeating a query gives the same answer");
    CANARY_HERE();
}
#endif

#ifdef UNIT_SEARCH
/* Graph search, BOUNDED: NV variables (objects 1..NV), each with a symbolic equivalence list of
 * at most NV-1 live entries; lists are symmetric (C09's invariant).  Oracle: reachability in
 * the undirected graph, computed by closure.                                                  */
#ifndef NV
#define NV 4
#endif
static bool adj[NV + 1][NV + 1];
static bool reach[NV + 1][NV + 1];

static void build_graph(void)
{
    for (ref v = 1; v <= NV; ++v) {
        F_VariableImpl_mVariable[v] = v;
        __alive[v] = 1;
        vvec_ref *l = &F_VariableImpl_mEquivalentVariables[v];
        __CPROVER_assume(l->n <= NV - 1);
        for (size_t k = 0; k < NV - 1; ++k)
            if (k < l->n) {
                __CPROVER_assume(l->d[k] >= 1 && l->d[k] <= NV && l->d[k] != v);
                for (size_t j = 0; j < k; ++j)
                    __CPROVER_assume(l->d[j] != l->d[k]);
            }
    }
    for (ref a = 1; a <= NV; ++a)
        for (ref b = 1; b <= NV; ++b) {
            bool listed = 0;
            vvec_ref *l = &F_VariableImpl_mEquivalentVariables[a];
            for (size_t k = 0; k < NV - 1; ++k)
                if (k < l->n && l->d[k] == b)
                    listed = 1;
            adj[a][b] = listed;
        }
    for (ref a = 1; a <= NV; ++a)
        for (ref b = 1; b <= NV; ++b)
            __CPROVER_assume(adj[a][b] == adj[b][a]); /* symmetric lists */
    for (ref a = 1; a <= NV; ++a)
        for (ref b = 1; b <= NV; ++b)
            reach[a][b] = (a == b) || adj[a][b];
    for (ref k = 1; k <= NV; ++k)
        for (ref a = 1; a <= NV; ++a)
            for (ref b = 1; b <= NV; ++b)
                if (reach[a][k] && reach[k][b])
                    reach[a][b] = 1;
}

void h_search_utility(void)
{
    ref in_v1, in_v2;
    __CPROVER_havoc_object(F_VariableImpl_mEquivalentVariables);
    build_graph();
    __CPROVER_assume(in_v1 >= 1 && in_v1 <= NV && in_v2 >= 1 && in_v2 <= NV);
    bool r = areEquivalentVariables(in_v1, in_v2);
    __CPROVER_assert(r == reach[in_v1][in_v2],
                     "areEquivalentVariables(v1,v2) is true exactly when a chain of equivalences links them (or v1 is v2)");
    bool h = Variable_hasEquivalentVariable(in_v1, in_v2, 1);
    __CPROVER_assert(h == (in_v1 != in_v2 && reach[in_v1][in_v2]),
                     "hasEquivalentVariable(v, true) is true exactly when a chain links two different variables");
    bool d = Variable_hasEquivalentVariable(in_v1, in_v2, 0);
    __CPROVER_assert(d == adj[in_v1][in_v2], "hasEquivalentVariable(v, false) is true exactly for a direct equivalence");
    CANARY_HERE();
}
#endif
