/* C18, the graph search: variable.cpp haveEquivalentVariables() (depth-first search over the equivalence lists with a
 * list of tested variables) and its entry VariableImpl::hasIndirectEquivalentVariable().
 *
 * Obligation (from the property: "true exactly when the two variables are linked by a chain of variable equivalences"):
 * with Reach[x] = "x reaches the target g_v1 along equivalence lists" computed independently in the harness,
 *   haveEquivalentVariables(v1, v2, tested) == true   ==>  Reach[v2]
 *   ... == false  ==>  v2 and every variable ADDED to `tested` by the call have all their equivalent variables in
 *                       `tested` afterwards, none of them is v1, and what was tested before is still there
 * (the classical depth-first-search contract; the recursive call is the function's own contract: induction on the
 * number of untested variables).  At the entry point the list starts empty, so a false result leaves a set that
 * contains v2, is closed under equivalence and does not contain v1: v1 is not reachable.
 * The equivalence lists are ghost tables read through contract stubs (C09 keeps them mutual and duplicate free).
 * BOUNDED: at most HEAP_N-1 variables, at most MAXW equivalent variables each.                                  */
#ifndef C18_SEARCH_H
#define C18_SEARCH_H
#include "kinds.h"
unsigned char __kind[HEAP_N];
bool __alive[HEAP_N];
size_t __addr[HEAP_N];
#define OBJ(x) ((x) != 0 && (x) < HEAP_N)
#ifndef MAXW
#define MAXW 3
#endif
ref g_eqv[HEAP_N][MAXW];
size_t g_neq[HEAP_N];
bool Reach[HEAP_N];
ref g_v1;
#define __FC_Variable_equivalentVariableCount __CPROVER_requires(OBJ(self)) __CPROVER_ensures(__CPROVER_return_value == g_neq[self]) __CPROVER_assigns()
#define __FC_Variable_equivalentVariable __CPROVER_requires(OBJ(self)) __CPROVER_ensures(__CPROVER_return_value == (index < g_neq[self] ? g_eqv[self][index] : (ref)0)) __CPROVER_assigns()

/* membership in the tested list (at most 6 entries: HEAP_N <= 7) */
#define MEM(t, x) (((t).n > 0 && (t).d[0] == (x)) || ((t).n > 1 && (t).d[1] == (x)) || ((t).n > 2 && (t).d[2] == (x)) || \
                   ((t).n > 3 && (t).d[3] == (x)) || ((t).n > 4 && (t).d[4] == (x)) || ((t).n > 5 && (t).d[5] == (x)))
#define OLDMEM(t, x) ((__CPROVER_old((t).n) > 0 && __CPROVER_old((t).d[0]) == (x)) || (__CPROVER_old((t).n) > 1 && __CPROVER_old((t).d[1]) == (x)) || \
                      (__CPROVER_old((t).n) > 2 && __CPROVER_old((t).d[2]) == (x)) || (__CPROVER_old((t).n) > 3 && __CPROVER_old((t).d[3]) == (x)) || \
                      (__CPROVER_old((t).n) > 4 && __CPROVER_old((t).d[4]) == (x)) || (__CPROVER_old((t).n) > 5 && __CPROVER_old((t).d[5]) == (x)))
#define ENT_OK(t, k) ((t).n <= (k) || OBJ((t).d[k]))
#define DIFF(t, a, b) ((t).n <= (b) || (t).d[a] != (t).d[b])
/* the list holds live variables, each once (so it never exceeds the number of variables) */
#define LIST_OK(t) ((t).n <= HEAP_N - 1 && ENT_OK(t, 0) && ENT_OK(t, 1) && ENT_OK(t, 2) && ENT_OK(t, 3) && ENT_OK(t, 4) && ENT_OK(t, 5) && \
                    DIFF(t, 0, 1) && DIFF(t, 0, 2) && DIFF(t, 0, 3) && DIFF(t, 0, 4) && DIFF(t, 0, 5) && DIFF(t, 1, 2) && DIFF(t, 1, 3) && DIFF(t, 1, 4) && DIFF(t, 1, 5) && \
                    DIFF(t, 2, 3) && DIFF(t, 2, 4) && DIFF(t, 2, 5) && DIFF(t, 3, 4) && DIFF(t, 3, 5) && DIFF(t, 4, 5))
#define KEPT(t, k) (__CPROVER_old((t).n) <= (k) || (t).d[k] == __CPROVER_old((t).d[k]))
#define PREFIX_KEPT(t) ((t).n >= __CPROVER_old((t).n) && KEPT(t, 0) && KEPT(t, 1) && KEPT(t, 2) && KEPT(t, 3) && KEPT(t, 4) && KEPT(t, 5))
/* variable w was added by this call: then it is not the target and all its equivalent variables are tested */
#define NBR_IN(t, w, j) (g_neq[w] <= (j) || MEM(t, g_eqv[w][j]))
#define CLOSED_AT(t, w) ((MEM(t, w) && !OLDMEM(t, w)) ==> ((w) != variable1 && NBR_IN(t, w, 0) && NBR_IN(t, w, 1) && NBR_IN(t, w, 2)))
#define CLOSED_NEW(t) (CLOSED_AT(t, 1) && CLOSED_AT(t, 2) && CLOSED_AT(t, 3) && CLOSED_AT(t, 4) && CLOSED_AT(t, 5) && CLOSED_AT(t, 6 % HEAP_N))
#define SEARCH_CONTRACT                                                                        \
    __CPROVER_requires(__CPROVER_is_fresh(testedVariables, sizeof(*testedVariables)) && LIST_OK(*testedVariables)) \
    __CPROVER_requires(variable1 == g_v1 && variable1 < HEAP_N && variable2 < HEAP_N && (variable2 == 0 || !MEM(*testedVariables, variable2))) \
    __CPROVER_assigns(*testedVariables)                                                        \
    __CPROVER_ensures(LIST_OK(*testedVariables) && PREFIX_KEPT(*testedVariables))              \
    __CPROVER_ensures(__CPROVER_return_value ==> Reach[variable2])                             \
    __CPROVER_ensures(!__CPROVER_return_value ==> ((variable2 == 0 || MEM(*testedVariables, variable2)) && CLOSED_NEW(*testedVariables)))
#define __FC_haveEquivalentVariables SEARCH_CONTRACT
/* the recursive call is the function's own contract */
#define __RC_haveEquivalentVariables SEARCH_CONTRACT
#endif
