#ifdef CANARY
#define CANARY_HERE() __CPROVER_assert(0, "CANARY reachable")
#else
#define CANARY_HERE()
#endif

/* membership / position of an object in a (bounded) list */
static inline bool in_list(const vvec_ref *v, ref x)
{
    for (size_t k = 0; k < MAXN + 1; ++k)
        if (k < v->n && v->d[k] == x)
            return 1;
    return 0;
}
static inline size_t count_in_list(const vvec_ref *v, ref x)
{
    size_t r = 0;
    for (size_t k = 0; k < MAXN + 1; ++k)
        if (k < v->n && v->d[k] == x)
            ++r;
    return r;
}
#ifdef HAVE_F_ParentedEntityImpl_mParent
/* WF: listed children are non-null, owned by X, listed once */
static inline bool wf_list(const vvec_ref *v, ref X)
{
    for (size_t k = 0; k < MAXN + 1; ++k)
        if (k < v->n) {
            ref c = v->d[k];
            if (c == 0 || c >= HEAP_N || PARENT(c) != X || count_in_list(v, c) != 1)
                return 0;
        }
    return 1;
}
#endif
/* `after` is `before` with exactly the element at position pos removed (order kept) */
static inline bool is_erase_of(const vvec_ref *before, const vvec_ref *after, size_t pos)
{
    if (pos >= before->n || after->n + 1 != before->n)
        return 0;
    for (size_t k = 0; k < MAXN + 1; ++k)
        if (k < after->n && after->d[k] != before->d[k < pos ? k : k + 1])
            return 0;
    return 1;
}
static inline bool same_list(const vvec_ref *a, const vvec_ref *b)
{
    if (a->n != b->n)
        return 0;
    for (size_t k = 0; k < MAXN + 1; ++k)
        if (k < a->n && a->d[k] != b->d[k])
            return 0;
    return 1;
}
static inline size_t pos_in_list(const vvec_ref *v, ref x)
{
    for (size_t k = 0; k < MAXN + 1; ++k)
        if (k < v->n && v->d[k] == x)
            return k;
    return v->n;
}

/* equals() between entities: the arbitrary equivalence E (structurally identical siblings exist) */
bool V_doEquals(ref self, ref other)
{
    return spec_E(self, other);
}

#ifdef HAVE_F_ParentedEntityImpl_mParent
/* ---- the world ---------------------------------------------------------------------------- */
static vvec_ref LP0, LQ0;          /* child lists of P and Q before the call */
static ref PAR0[HEAP_N];           /* parents before the call */

static void world(unsigned char container_kind, unsigned char child_kind, vvec_ref *lp, vvec_ref *lq)
{
    havoc_heap();
    for (unsigned k = 0; k < HEAP_N; ++k) {
        unsigned char kk;
        unsigned cc;
        __CPROVER_assume(kk >= 1 && kk <= K_MAX);
        __kind[k] = kk;
        __cls[k] = cc;
        __alive[k] = 1;
    }
    __CPROVER_assume(KIND(P_) == container_kind && KIND(Q_) == container_kind);
    for (ref c = 3; c <= FREE_; ++c)
        __CPROVER_assume(KIND(c) == child_kind);
    /* canonical child ids: P lists a prefix of [3,4], Q a prefix of [5,6] */
    __CPROVER_assume(lp->n <= MAXN && lq->n <= MAXN);
    lp->d[0] = 3;
    lp->d[1] = 4;
    lq->d[0] = 5;
    lq->d[1] = 6;
    for (ref c = 3; c <= FREE_; ++c) {
        ref owner = 0;
        if (c - 3 < 2 && (size_t)(c - 3) < lp->n)
            owner = P_;
        if (c >= 5 && c - 5 < 2 && (size_t)(c - 5) < lq->n)
            owner = Q_;
        PARENT(c) = owner; /* listed children are owned by their container, the others are parentless */
    }
    __CPROVER_assume(PARENT(P_) == 0 || PARENT(P_) == GP_ || PARENT(P_) == Q_);
    __CPROVER_assume(PARENT(Q_) == 0 || PARENT(Q_) == GP_);
    __CPROVER_assume(PARENT(GP_) == 0);
    LP0 = *lp;
    LQ0 = *lq;
    for (unsigned k = 0; k < HEAP_N; ++k)
        PAR0[k] = PARENT(k);
}
/* parents of everything except the listed exceptions are what they were */
static bool parents_unchanged_except(ref a, ref b)
{
    for (unsigned k = 1; k < HEAP_N; ++k)
        if (k != a && k != b && PARENT(k) != PAR0[k])
            return 0;
    return 1;
}
static ref child_arg(void)
{
    ref x;
    __CPROVER_assume(x == 0 || (x >= 3 && x <= FREE_));
    return x;
}

#endif
/* ---- generic post-conditions ---------------------------------------------------------------- */
#define OP_ASSERT(c, op, what) __CPROVER_assert((c), op ": " what)

/* after removing `gone` (a child of P before) by index / name / pointer */
#define POST_REMOVED(op, lp, lq, ret, gone)                                                    \
    do {                                                                                      \
        OP_ASSERT(ret, op, "returns true when the child exists");                             \
        OP_ASSERT(is_erase_of(&LP0, lp, pos_in_list(&LP0, gone)), op, "exactly that child leaves the list, the others keep their order"); \
        OP_ASSERT(PARENT(gone) == 0, op, "the removed child no longer reports a parent");     \
        OP_ASSERT(parents_unchanged_except(gone, 0), op, "no other entity's parent changes"); \
        OP_ASSERT(same_list(&LQ0, lq), op, "other containers are untouched");                 \
        OP_ASSERT(wf_list(lp, P_), op, "container stays well formed");                        \
    } while (0)
#define POST_UNCHANGED(op, lp, lq)                                                             \
    do {                                                                                      \
        OP_ASSERT(same_list(&LP0, lp) && same_list(&LQ0, lq), op, "refused: the lists are unchanged"); \
        OP_ASSERT(parents_unchanged_except(0, 0), op, "refused: no parent changes");          \
    } while (0)
/* remove by pointer: the argument itself if it is a child; otherwise refused, or matched to a
 * structurally equal child whose own links are updated (the argument keeps its parent) */
#define POST_REMOVE_PTR(op, lp, lq, ret, x)                                                    \
    do {                                                                                      \
        if ((x) == 0) {                                                                       \
            OP_ASSERT(!(ret), op, "null argument is refused");                                \
            POST_UNCHANGED(op, lp, lq);                                                       \
        } else if (in_list(&LP0, x)) {                                                        \
            POST_REMOVED(op, lp, lq, ret, x);                                                 \
        } else if (ret) {                                                                     \
            OP_ASSERT((lp)->n + 1 == LP0.n, op, "not a child but accepted: exactly one (structurally equal) child leaves"); \
            for (size_t k = 0; k < MAXN; ++k)                                                 \
                if (k < LP0.n && !in_list(lp, LP0.d[k])) {                                    \
                    OP_ASSERT(spec_E(LP0.d[k], x), op, "the child that leaves equals the argument"); \
                    OP_ASSERT(PARENT(LP0.d[k]) == 0, op, "the child that leaves no longer reports a parent"); \
                    OP_ASSERT(parents_unchanged_except(LP0.d[k], 0), op, "the argument (not a child) keeps its own parent; nothing else changes"); \
                }                                                                             \
            OP_ASSERT(same_list(&LQ0, lq), op, "other containers are untouched");             \
            OP_ASSERT(wf_list(lp, P_), op, "container stays well formed");                    \
        } else {                                                                              \
            POST_UNCHANGED(op, lp, lq);                                                       \
        }                                                                                     \
    } while (0)
/* add / move: x is appended to P, leaves its old owner, reports P as parent */
#define POST_ADDED(op, lp, lq, ret, x)                                                         \
    do {                                                                                      \
        if ((x) == 0) {                                                                       \
            OP_ASSERT(!(ret), op, "null argument is refused");                                \
            POST_UNCHANGED(op, lp, lq);                                                       \
        } else {                                                                              \
            OP_ASSERT(ret, op, "returns true");                                               \
            OP_ASSERT((lp)->n == LP0.n + 1 && (lp)->d[LP0.n] == (x), op, "the entity is appended to the container"); \
            for (size_t k = 0; k < MAXN; ++k)                                                 \
                if (k < LP0.n)                                                                \
                    OP_ASSERT((lp)->d[k] == LP0.d[k], op, "existing children keep their places"); \
            OP_ASSERT(PARENT(x) == P_, op, "the entity reports the container as its parent"); \
            if (in_list(&LQ0, x))                                                             \
                OP_ASSERT(is_erase_of(&LQ0, lq, pos_in_list(&LQ0, x)), op, "moving: exactly that entity leaves its old container"); \
            else                                                                              \
                OP_ASSERT(same_list(&LQ0, lq), op, "other containers are untouched");         \
            OP_ASSERT(parents_unchanged_except(x, 0), op, "no other entity's parent changes"); \
            OP_ASSERT(wf_list(lp, P_) && wf_list(lq, Q_), op, "both containers stay well formed (no entity listed twice or by two containers)"); \
        }                                                                                     \
    } while (0)
#define POST_REMOVED_ALL(op, lp, lq)                                                           \
    do {                                                                                      \
        OP_ASSERT((lp)->n == 0, op, "the list is empty");                                     \
        for (size_t k = 0; k < MAXN; ++k)                                                     \
            if (k < LP0.n)                                                                    \
                OP_ASSERT(PARENT(LP0.d[k]) == 0, op, "every former child no longer reports a parent"); \
        OP_ASSERT(same_list(&LQ0, lq), op, "other containers are untouched");                 \
    } while (0)
#ifdef HAVE_F_ParentedEntityImpl_mParent
/* no child of P (before the call) is structurally equal to x */
static bool no_equal_child(ref x)
{
    for (size_t k = 0; k < MAXN; ++k)
        if (k < LP0.n && spec_E(LP0.d[k], x))
            return 0;
    return 1;
}
#define FIRST_EQUAL_NONE(x) no_equal_child(x)
#endif
#ifdef HAVE_F_NamedEntityImpl_mName
static ref first_named(const vvec_ref *v, sid name)
{
    for (size_t k = 0; k < MAXN; ++k)
        if (k < v->n && F_NamedEntityImpl_mName[v->d[k]] == name)
            return v->d[k];
    return 0;
}

#endif
/* ================================ variables of a component =================================== */
#ifdef H_VARIABLES
#define LV(X) (&F_ComponentImpl_mVariables[X])
void h_variables(void)
{
    world(K_COMPONENT, K_VARIABLE, LV(P_), LV(Q_));
    unsigned in_op;
    ref in_x = child_arg();
    size_t in_index;
    sid in_name;
    __CPROVER_assume(in_op < 8);
    switch (in_op) {
    case 0: {
        __CPROVER_assume(!in_list(&LP0, in_x)); /* re-adding a child of P is outside the claim */
        bool r = Component_addVariable(P_, in_x);
        POST_ADDED("Component::addVariable", LV(P_), LV(Q_), r, in_x);
        break;
    }
    case 1: {
        bool r = Component_removeVariable__sz(P_, in_index);
        if (in_index < LP0.n)
            POST_REMOVED("Component::removeVariable(index)", LV(P_), LV(Q_), r, LP0.d[in_index]);
        else {
            OP_ASSERT(!r, "Component::removeVariable(index)", "out-of-range index is refused");
            POST_UNCHANGED("Component::removeVariable(index)", LV(P_), LV(Q_));
        }
        break;
    }
    case 2: {
        ref e = first_named(&LP0, in_name);
        bool r = Component_removeVariable__s(P_, in_name);
        if (e != 0)
            POST_REMOVED("Component::removeVariable(name)", LV(P_), LV(Q_), r, e);
        else {
            OP_ASSERT(!r, "Component::removeVariable(name)", "unknown name is refused");
            POST_UNCHANGED("Component::removeVariable(name)", LV(P_), LV(Q_));
        }
        break;
    }
    case 3: {
        bool r = Component_removeVariable__ref(P_, in_x);
        POST_REMOVE_PTR("Component::removeVariable(variable)", LV(P_), LV(Q_), r, in_x);
        break;
    }
    case 4: {
        ref t = Component_takeVariable__sz(P_, in_index);
        if (in_index < LP0.n) {
            OP_ASSERT(t == LP0.d[in_index], "Component::takeVariable(index)", "returns the child at that index");
            POST_REMOVED("Component::takeVariable(index)", LV(P_), LV(Q_), 1, LP0.d[in_index]);
        } else {
            OP_ASSERT(t == 0, "Component::takeVariable(index)", "out-of-range index yields null");
            POST_UNCHANGED("Component::takeVariable(index)", LV(P_), LV(Q_));
        }
        break;
    }
    case 5: {
        ref e = first_named(&LP0, in_name);
        ref t = Component_takeVariable__s(P_, in_name);
        OP_ASSERT(t == e, "Component::takeVariable(name)", "returns the first child of that name, or null");
        if (e != 0)
            POST_REMOVED("Component::takeVariable(name)", LV(P_), LV(Q_), 1, e);
        else
            POST_UNCHANGED("Component::takeVariable(name)", LV(P_), LV(Q_));
        break;
    }
    case 6: {
        Component_removeAllVariables(P_);
        POST_REMOVED_ALL("Component::removeAllVariables", LV(P_), LV(Q_));
        break;
    }
    default: {
        ref v1 = Component_variable__sz(P_, in_index);
        OP_ASSERT(v1 == (in_index < LP0.n ? LP0.d[in_index] : 0), "Component::variable(index)", "the child at that index, null when out of range");
        ref v2 = Component_variable__s(P_, in_name);
        OP_ASSERT(v2 == first_named(&LP0, in_name), "Component::variable(name)", "the first child of that name, null when unknown");
        OP_ASSERT(Component_variableCount(P_) == LP0.n, "Component::variableCount", "the number of children");
        POST_UNCHANGED("Component::variable/variableCount", LV(P_), LV(Q_));
        break;
    }
    }
    CANARY_HERE();
}
#endif

/* ================================ resets of a component ====================================== */
#ifdef H_RESETS
#define LR(X) (&F_ComponentImpl_mResets[X])
void h_resets(void)
{
    world(K_COMPONENT, K_RESET, LR(P_), LR(Q_));
    unsigned in_op;
    ref in_x = child_arg();
    size_t in_index;
    __CPROVER_assume(in_op < 6);
    switch (in_op) {
    case 0: {
        __CPROVER_assume(!in_list(&LP0, in_x));
        bool r = Component_addReset(P_, in_x);
        POST_ADDED("Component::addReset", LR(P_), LR(Q_), r, in_x);
        break;
    }
    case 1: {
        bool r = Component_removeReset__sz(P_, in_index);
        if (in_index < LP0.n)
            POST_REMOVED("Component::removeReset(index)", LR(P_), LR(Q_), r, LP0.d[in_index]);
        else {
            OP_ASSERT(!r, "Component::removeReset(index)", "out-of-range index is refused");
            POST_UNCHANGED("Component::removeReset(index)", LR(P_), LR(Q_));
        }
        break;
    }
    case 2: {
        bool r = Component_removeReset__ref(P_, in_x);
        POST_REMOVE_PTR("Component::removeReset(reset)", LR(P_), LR(Q_), r, in_x);
        break;
    }
    case 3: {
        ref t = Component_takeReset(P_, in_index);
        if (in_index < LP0.n) {
            OP_ASSERT(t == LP0.d[in_index], "Component::takeReset(index)", "returns the child at that index");
            POST_REMOVED("Component::takeReset(index)", LR(P_), LR(Q_), 1, LP0.d[in_index]);
        } else {
            OP_ASSERT(t == 0, "Component::takeReset(index)", "out-of-range index yields null");
            POST_UNCHANGED("Component::takeReset(index)", LR(P_), LR(Q_));
        }
        break;
    }
    case 4: {
        Component_removeAllResets(P_);
        POST_REMOVED_ALL("Component::removeAllResets", LR(P_), LR(Q_));
        break;
    }
    default: {
        ref v1 = Component_reset(P_, in_index);
        OP_ASSERT(v1 == (in_index < LP0.n ? LP0.d[in_index] : 0), "Component::reset(index)", "the child at that index, null when out of range");
        OP_ASSERT(Component_resetCount(P_) == LP0.n, "Component::resetCount", "the number of children");
        POST_UNCHANGED("Component::reset/resetCount", LR(P_), LR(Q_));
        break;
    }
    }
    CANARY_HERE();
}
#endif

/* replace: `neu` takes the place of the child `old` (same position); `old` is released */
#define POST_REPLACED(op, lp, lq, ret, old, neu)                                               \
    do {                                                                                      \
        OP_ASSERT(ret, op, "returns true when the child exists and the replacement is not null"); \
        OP_ASSERT((lp)->n == LP0.n, op, "the number of children is unchanged");               \
        for (size_t k = 0; k < MAXN; ++k)                                                     \
            if (k < LP0.n)                                                                    \
                OP_ASSERT((lp)->d[k] == (LP0.d[k] == (old) ? (neu) : LP0.d[k]), op, "the replacement takes exactly the old child's place"); \
        OP_ASSERT(PARENT(neu) == P_, op, "the replacement reports the container as its parent"); \
        OP_ASSERT((old) == (neu) || PARENT(old) == 0, op, "the replaced child no longer reports a parent"); \
        OP_ASSERT(parents_unchanged_except(old, neu), op, "no other entity's parent changes"); \
        OP_ASSERT(wf_list(lp, P_) && wf_list(lq, Q_), op, "both containers stay well formed (no entity listed twice or by two containers)"); \
    } while (0)

/* ================================ units of a model ============================================ */
#ifdef H_UNITS
#define LU(X) (&F_ModelImpl_mUnits[X])
void h_units(void)
{
    world(K_MODEL, K_UNITS, LU(P_), LU(Q_));
    unsigned in_op;
    ref in_x = child_arg(), in_y = child_arg();
    size_t in_index;
    sid in_name;
    __CPROVER_assume(in_op < 11);
    switch (in_op) {
    case 0: {
        __CPROVER_assume(!in_list(&LP0, in_x));
        bool r = Model_addUnits(P_, in_x);
        POST_ADDED("Model::addUnits", LU(P_), LU(Q_), r, in_x);
        break;
    }
    case 1: {
        bool r = Model_removeUnits__sz(P_, in_index);
        if (in_index < LP0.n)
            POST_REMOVED("Model::removeUnits(index)", LU(P_), LU(Q_), r, LP0.d[in_index]);
        else {
            OP_ASSERT(!r, "Model::removeUnits(index)", "out-of-range index is refused");
            POST_UNCHANGED("Model::removeUnits(index)", LU(P_), LU(Q_));
        }
        break;
    }
    case 2: {
        ref e = first_named(&LP0, in_name);
        bool r = Model_removeUnits__s(P_, in_name);
        if (e != 0)
            POST_REMOVED("Model::removeUnits(name)", LU(P_), LU(Q_), r, e);
        else {
            OP_ASSERT(!r, "Model::removeUnits(name)", "unknown name is refused");
            POST_UNCHANGED("Model::removeUnits(name)", LU(P_), LU(Q_));
        }
        break;
    }
    case 3: {
        bool r = Model_removeUnits__ref(P_, in_x);
        POST_REMOVE_PTR("Model::removeUnits(units)", LU(P_), LU(Q_), r, in_x);
        break;
    }
    case 4: {
        ref t = Model_takeUnits__sz(P_, in_index);
        if (in_index < LP0.n) {
            OP_ASSERT(t == LP0.d[in_index], "Model::takeUnits(index)", "returns the child at that index");
            POST_REMOVED("Model::takeUnits(index)", LU(P_), LU(Q_), 1, LP0.d[in_index]);
        } else {
            OP_ASSERT(t == 0, "Model::takeUnits(index)", "out-of-range index yields null");
            POST_UNCHANGED("Model::takeUnits(index)", LU(P_), LU(Q_));
        }
        break;
    }
    case 5: {
        ref e = first_named(&LP0, in_name);
        ref t = Model_takeUnits__s(P_, in_name);
        OP_ASSERT(t == e, "Model::takeUnits(name)", "returns the first child of that name, or null");
        if (e != 0)
            POST_REMOVED("Model::takeUnits(name)", LU(P_), LU(Q_), 1, e);
        else
            POST_UNCHANGED("Model::takeUnits(name)", LU(P_), LU(Q_));
        break;
    }
    case 6: {
        Model_removeAllUnits(P_);
        POST_REMOVED_ALL("Model::removeAllUnits", LU(P_), LU(Q_));
        break;
    }
    case 7: {
        /* re-adding another child of P is outside the claim; replacing a child by itself is not */
        __CPROVER_assume(in_y == 0 || !in_list(&LP0, in_y) || (in_index < LP0.n && in_y == LP0.d[in_index]));
        bool r = Model_replaceUnits__sz_ref(P_, in_index, in_y);
        if (in_index < LP0.n && in_y != 0)
            POST_REPLACED("Model::replaceUnits(index, units)", LU(P_), LU(Q_), r, LP0.d[in_index], in_y);
        else {
            OP_ASSERT(!r, "Model::replaceUnits(index, units)", "out-of-range index or null replacement is refused");
            POST_UNCHANGED("Model::replaceUnits(index, units)", LU(P_), LU(Q_));
        }
        break;
    }
    case 8: {
        __CPROVER_assume(in_y == 0 || !in_list(&LP0, in_y));
        ref e = first_named(&LP0, in_name);
        bool r = Model_replaceUnits__s_ref(P_, in_name, in_y);
        if (e != 0 && in_y != 0)
            POST_REPLACED("Model::replaceUnits(name, units)", LU(P_), LU(Q_), r, e, in_y);
        else {
            OP_ASSERT(!r, "Model::replaceUnits(name, units)", "unknown name or null replacement is refused");
            POST_UNCHANGED("Model::replaceUnits(name, units)", LU(P_), LU(Q_));
        }
        break;
    }
    case 9: {
        __CPROVER_assume(in_y == 0 || !in_list(&LP0, in_y));
        __CPROVER_assume(in_x == 0 || in_list(&LP0, in_x) || FIRST_EQUAL_NONE(in_x)); /* old units: a child, or nothing equal to it */
        bool r = Model_replaceUnits__ref_ref(P_, in_x, in_y);
        if (in_x != 0 && in_list(&LP0, in_x) && in_y != 0)
            POST_REPLACED("Model::replaceUnits(old, new)", LU(P_), LU(Q_), r, in_x, in_y);
        else {
            OP_ASSERT(!r, "Model::replaceUnits(old, new)", "null / unknown old units or null replacement is refused");
            POST_UNCHANGED("Model::replaceUnits(old, new)", LU(P_), LU(Q_));
        }
        break;
    }
    default: {
        ref v1 = Model_units__sz(P_, in_index);
        OP_ASSERT(v1 == (in_index < LP0.n ? LP0.d[in_index] : 0), "Model::units(index)", "the child at that index, null when out of range");
        ref v2 = Model_units__s(P_, in_name);
        OP_ASSERT(v2 == first_named(&LP0, in_name), "Model::units(name)", "the first child of that name, null when unknown");
        OP_ASSERT(Model_unitsCount(P_) == LP0.n, "Model::unitsCount", "the number of children");
        POST_UNCHANGED("Model::units/unitsCount", LU(P_), LU(Q_));
        break;
    }
    }
    CANARY_HERE();
}
#endif

/* ================================ child components of a component / model ===================== */
#ifdef H_COMPONENTS
#define LC(X) (&F_ComponentEntityImpl_mComponents[X])
/* y is a proper ancestor of x (walk up the parent chain; every object of the world is modelled) */
static bool is_ancestor(ref x, ref y)
{
    ref p = PARENT(x);
    for (unsigned k = 0; k < HEAP_N; ++k) {
        if (p == 0)
            return 0;
        if (p == y)
            return 1;
        p = PARENT(p);
    }
    return 0;
}
#define REPLACE_WOULD_CYCLE(y) ((y) != 0 && ((y) == P_ || is_ancestor(P_, (y))))
static bool acyclic(void)
{
    for (ref x = 1; x < HEAP_N; ++x) {
        ref p = x;
        bool ends = 0;
        for (unsigned k = 0; k <= HEAP_N; ++k) {
            p = PARENT(p);
            if (p == 0) {
                ends = 1;
                break;
            }
        }
        if (!ends)
            return 0;
    }
    return 1;
}
/* the recursive call of ParentedEntity::hasAncestor: its own contract (induction on the chain) */
bool ParentedEntity_hasAncestor__rec(ref self, ref entity) { return is_ancestor(self, entity); }
/* recursion into encapsulated children (searchEncapsulated == true) is the inductive step and is
 * not exercised: the harness calls with searchEncapsulated == false */
bool ComponentEntity_removeComponent__s_b__rec(ref self, sid name, bool s) { __CPROVER_assert(0, "not reached with searchEncapsulated == false"); return 0; }
bool ComponentEntity_removeComponent__ref_b__rec(ref self, ref c, bool s) { __CPROVER_assert(0, "not reached with searchEncapsulated == false"); return 0; }
bool ComponentEntity_containsComponent__s_b__rec(ref self, sid name, bool s) { __CPROVER_assert(0, "not reached with searchEncapsulated == false"); return 0; }
bool ComponentEntity_containsComponent__ref_b__rec(ref self, ref c, bool s) { __CPROVER_assert(0, "not reached with searchEncapsulated == false"); return 0; }
ref ComponentEntity_component__s_b__rec(ref self, sid name, bool s) { __CPROVER_assert(0, "not reached with searchEncapsulated == false"); return 0; }
ref ComponentEntity_takeComponent__s_b__rec(ref self, sid name, bool s) { __CPROVER_assert(0, "not reached with searchEncapsulated == false"); return 0; }
bool ComponentEntity_replaceComponent__s_ref_b__rec(ref self, sid name, ref c, bool s) { __CPROVER_assert(0, "not reached with searchEncapsulated == false"); return 0; }
bool ComponentEntity_replaceComponent__ref_ref_b__rec(ref self, ref o, ref c, bool s) { __CPROVER_assert(0, "not reached with searchEncapsulated == false"); return 0; }
bool V_doAddComponent(ref self, ref component)
{
    return IS_Model(self) ? Model_doAddComponent(self, component) : Component_doAddComponent(self, component);
}

void h_components(void)
{
    havoc_heap();
    unsigned char pk, qk;
    __CPROVER_assume((pk == K_COMPONENT || pk == K_MODEL) && (qk == K_COMPONENT || qk == K_MODEL));
    world(K_COMPONENT, K_COMPONENT, LC(P_), LC(Q_));
    __kind[P_] = pk;
    __kind[Q_] = qk;
    __kind[GP_] = K_COMPONENT;
    if (pk == K_MODEL)
        __CPROVER_assume(PARENT(P_) == 0); /* a model has no parent */
    if (qk == K_MODEL)
        __CPROVER_assume(PARENT(Q_) == 0);
    /* children of children are not modelled: their lists are empty */
    for (ref c = 3; c <= GP_; ++c)
        __CPROVER_assume(LC(c)->n == 0);
    __CPROVER_assume(acyclic());
    for (unsigned k = 0; k < HEAP_N; ++k)
        PAR0[k] = PARENT(k);
    unsigned in_op;
    ref in_x, in_y;
    __CPROVER_assume(in_x <= GP_ && (in_x == 0 || KIND(in_x) == K_COMPONENT));
    __CPROVER_assume(in_y <= GP_ && (in_y == 0 || KIND(in_y) == K_COMPONENT));
    size_t in_index;
    sid in_name;
    __CPROVER_assume(in_op < 11);
    switch (in_op) {
    case 0: {
        __CPROVER_assume(!in_list(&LP0, in_x));
        /* GP_ may hold P_ in its (unmodelled) list; moving GP_'s own children is not modelled */
        __CPROVER_assume(in_x == 0 || PARENT(in_x) == 0 || PARENT(in_x) == Q_ || in_x == P_ || in_x == GP_ || in_x == Q_);
        bool r = ComponentEntity_addComponent(P_, in_x);
        bool would_cycle = in_x != 0 && (in_x == P_ || is_ancestor(P_, in_x));
        if (would_cycle) {
            OP_ASSERT(!r, "addComponent", "inserting a component into itself or into one of its descendants is refused");
            POST_UNCHANGED("addComponent (cycle)", LC(P_), LC(Q_));
        } else if (in_x == Q_ || in_x == GP_) {
            OP_ASSERT(acyclic(), "addComponent", "the component hierarchy stays acyclic");
        } else {
            POST_ADDED("addComponent", LC(P_), LC(Q_), r, in_x);
            OP_ASSERT(acyclic(), "addComponent", "the component hierarchy stays acyclic");
        }
        break;
    }
    case 1: {
        bool r = ComponentEntity_removeComponent__sz(P_, in_index);
        if (in_index < LP0.n)
            POST_REMOVED("removeComponent(index)", LC(P_), LC(Q_), r, LP0.d[in_index]);
        else {
            OP_ASSERT(!r, "removeComponent(index)", "out-of-range index is refused");
            POST_UNCHANGED("removeComponent(index)", LC(P_), LC(Q_));
        }
        break;
    }
    case 2: {
        ref e = first_named(&LP0, in_name);
        bool r = ComponentEntity_removeComponent__s_b(P_, in_name, 0);
        if (e != 0)
            POST_REMOVED("removeComponent(name)", LC(P_), LC(Q_), r, e);
        else {
            OP_ASSERT(!r, "removeComponent(name)", "unknown name is refused");
            POST_UNCHANGED("removeComponent(name)", LC(P_), LC(Q_));
        }
        break;
    }
    case 3: {
        bool r = ComponentEntity_removeComponent__ref_b(P_, in_x, 0);
        POST_REMOVE_PTR("removeComponent(component)", LC(P_), LC(Q_), r, in_x);
        break;
    }
    case 4: {
        ref t = ComponentEntity_takeComponent__sz(P_, in_index);
        if (in_index < LP0.n) {
            OP_ASSERT(t == LP0.d[in_index], "takeComponent(index)", "returns the child at that index");
            POST_REMOVED("takeComponent(index)", LC(P_), LC(Q_), 1, LP0.d[in_index]);
        } else {
            OP_ASSERT(t == 0, "takeComponent(index)", "out-of-range index yields null");
            POST_UNCHANGED("takeComponent(index)", LC(P_), LC(Q_));
        }
        break;
    }
    case 5: {
        ref e = first_named(&LP0, in_name);
        ref t = ComponentEntity_takeComponent__s_b(P_, in_name, 0);
        OP_ASSERT(t == e, "takeComponent(name)", "returns the first child of that name, or null");
        if (e != 0)
            POST_REMOVED("takeComponent(name)", LC(P_), LC(Q_), 1, e);
        else
            POST_UNCHANGED("takeComponent(name)", LC(P_), LC(Q_));
        break;
    }
    case 6: {
        ComponentEntity_removeAllComponents(P_);
        POST_REMOVED_ALL("removeAllComponents", LC(P_), LC(Q_));
        break;
    }
    case 7: {
        /* a replacement that this container already holds at another position is the "adding an entity to the container that already
         * holds it" case the property leaves out; moving the second container Q_ itself is not modelled.  The container itself and its
         * parent ARE possible replacements: the hierarchy must stay acyclic. */
        __CPROVER_assume(in_y == 0 || in_y == P_ || in_y == GP_ || (!in_list(&LP0, in_y) && in_y != Q_) || (in_index < LP0.n && in_y == LP0.d[in_index]));
        bool r = ComponentEntity_replaceComponent__sz_ref(P_, in_index, in_y);
        if (REPLACE_WOULD_CYCLE(in_y)) {
            OP_ASSERT(!r, "replaceComponent(index, component)", "replacing a child by the container itself or by one of its ancestors is refused (the hierarchy stays acyclic)");
            POST_UNCHANGED("replaceComponent(index, component) (cycle)", LC(P_), LC(Q_));
        } else if (in_index < LP0.n && in_y != 0)
            POST_REPLACED("replaceComponent(index, component)", LC(P_), LC(Q_), r, LP0.d[in_index], in_y);
        else {
            OP_ASSERT(!r, "replaceComponent(index, component)", "out-of-range index or null replacement is refused");
            POST_UNCHANGED("replaceComponent(index, component)", LC(P_), LC(Q_));
        }
        break;
    }
    case 8: {
        __CPROVER_assume(in_y == 0 || in_y == P_ || in_y == GP_ || (!in_list(&LP0, in_y) && in_y != Q_));
        ref e = first_named(&LP0, in_name);
        bool r = ComponentEntity_replaceComponent__s_ref_b(P_, in_name, in_y, 0);
        if (REPLACE_WOULD_CYCLE(in_y)) {
            OP_ASSERT(!r, "replaceComponent(name, component)", "replacing a child by the container itself or by one of its ancestors is refused (the hierarchy stays acyclic)");
            POST_UNCHANGED("replaceComponent(name, component) (cycle)", LC(P_), LC(Q_));
        } else if (e != 0 && in_y != 0)
            POST_REPLACED("replaceComponent(name, component)", LC(P_), LC(Q_), r, e, in_y);
        else {
            OP_ASSERT(!r, "replaceComponent(name, component)", "unknown name or null replacement is refused");
            POST_UNCHANGED("replaceComponent(name, component)", LC(P_), LC(Q_));
        }
        break;
    }
    case 9: {
        __CPROVER_assume(in_y == 0 || in_y == P_ || in_y == GP_ || (!in_list(&LP0, in_y) && in_y != Q_));
        __CPROVER_assume(in_x == 0 || in_list(&LP0, in_x) || no_equal_child(in_x));
        bool r = ComponentEntity_replaceComponent__ref_ref_b(P_, in_x, in_y, 0);
        if (REPLACE_WOULD_CYCLE(in_y)) {
            OP_ASSERT(!r, "replaceComponent(old, new)", "replacing a child by the container itself or by one of its ancestors is refused (the hierarchy stays acyclic)");
            POST_UNCHANGED("replaceComponent(old, new) (cycle)", LC(P_), LC(Q_));
        } else if (in_x != 0 && in_list(&LP0, in_x) && in_y != 0)
            POST_REPLACED("replaceComponent(old, new)", LC(P_), LC(Q_), r, in_x, in_y);
        else {
            OP_ASSERT(!r, "replaceComponent(old, new)", "null / unknown old component or null replacement is refused");
            POST_UNCHANGED("replaceComponent(old, new)", LC(P_), LC(Q_));
        }
        break;
    }
    default: {
        ref v1 = ComponentEntity_component__sz(P_, in_index);
        OP_ASSERT(v1 == (in_index < LP0.n ? LP0.d[in_index] : 0), "component(index)", "the child at that index, null when out of range");
        ref v2 = ComponentEntity_component__s_b(P_, in_name, 0);
        OP_ASSERT(v2 == first_named(&LP0, in_name), "component(name)", "the first child of that name, null when unknown");
        OP_ASSERT(ComponentEntity_componentCount(P_) == LP0.n, "componentCount", "the number of children");
        OP_ASSERT(ComponentEntity_containsComponent__s_b(P_, in_name, 0) == (first_named(&LP0, in_name) != 0), "containsComponent(name)", "true exactly when a child has that name");
        POST_UNCHANGED("component/componentCount/containsComponent", LC(P_), LC(Q_));
        break;
    }
    }
    CANARY_HERE();
}
#endif

/* ================================ variable equivalences ====================================== */
#ifdef H_EQUIVALENCES
#define LE(X) (&F_VariableImpl_mEquivalentVariables[X])
#define NVAR 3   /* live variables 1..3; object 4 is a variable that has been destroyed */
#define DEAD 4
static bool eq_listed(ref x, ref y)   /* y is in x's equivalence list (as stored, weak) */
{
    for (size_t k = 0; k < VVEC_CAP; ++k)
        if (k < LE(x)->n && LE(x)->d[k] == y)
            return 1;
    return 0;
}
/* symmetric over live variables, no duplicates, only variables listed */
static bool eq_wf(void)
{
    for (ref x = 1; x <= NVAR; ++x) {
        for (size_t k = 0; k < VVEC_CAP; ++k)
            if (k < LE(x)->n) {
                ref y = LE(x)->d[k];
                if (y < 1 || y > DEAD || y == x) /* a variable is never its own equivalent */
                    return 0;
                for (size_t j = 0; j < k; ++j)
                    if (LE(x)->d[j] == y)
                        return 0;
                if (y <= NVAR && !eq_listed(y, x))
                    return 0;
            }
    }
    return 1;
}
static vvec_ref LE0[NVAR + 1];
void h_equivalences(void)
{
    havoc_heap();
    for (unsigned k = 0; k < HEAP_N; ++k) {
        __kind[k] = K_VARIABLE;
        __alive[k] = (k != DEAD);
        F_VariableImpl_mVariable[k] = (ref)k;
    }
    for (ref x = 0; x < HEAP_N; ++x) {
        __CPROVER_assume(LE(x)->n <= MAXN + 1);
        for (size_t k = 0; k < VVEC_CAP; ++k)
            __CPROVER_assume(LE(x)->d[k] >= 1 && LE(x)->d[k] <= DEAD);
        __CPROVER_assume(F_VariableImpl_mMappingIdMap[x].n <= 1 && F_VariableImpl_mConnectionIdMap[x].n <= 1);
    }
    __CPROVER_assume(eq_wf());
    for (ref x = 1; x <= NVAR; ++x) {
        LE0[x] = *LE(x);
        __CPROVER_assume(F_VariableImpl_mMappingIdMap[x].n <= 1 && F_VariableImpl_mConnectionIdMap[x].n <= 1);
    }
    unsigned in_op;
    unsigned in_pattern; /* which arguments: canonical by symmetry of the live variables */
    size_t in_index;
    sid in_m, in_c;
    __CPROVER_assume(in_op < 6 && in_pattern < 5);
    /* (x, y) in {(1,2), (1,1), (1,null), (null,2), (null,null)}: constants on each branch */
    ref in_x = (in_pattern <= 2) ? 1 : 0;
    ref in_y = (in_pattern == 0 || in_pattern == 3) ? 2 : (in_pattern == 1 ? 1 : 0);
#define CALL2(RES, F, ...)                                                                    \
    switch (in_pattern) {                                                                     \
    case 0: RES F(1, 2 __VA_ARGS__); break;                                                   \
    case 1: RES F(1, 1 __VA_ARGS__); break;                                                   \
    case 2: RES F(1, 0 __VA_ARGS__); break;                                                   \
    case 3: RES F(0, 2 __VA_ARGS__); break;                                                   \
    default: RES F(0, 0 __VA_ARGS__); break;                                                  \
    }
    switch (in_op) {
    case 0: {
        bool was = in_x && in_y && eq_listed(in_x, in_y);
        __CPROVER_assume(LE(1)->n <= MAXN && LE(2)->n <= MAXN);
        bool r;
        CALL2(r =, Variable_addEquivalence__ref_ref);
        if (in_x == 0 || in_y == 0)
            OP_ASSERT(!r, "Variable::addEquivalence", "null argument is refused");
        else if (in_x != in_y && !was)
            OP_ASSERT(r && eq_listed(in_x, in_y) && eq_listed(in_y, in_x), "Variable::addEquivalence", "both variables list each other afterwards");
        OP_ASSERT(eq_wf(), "Variable::addEquivalence", "equivalence stays symmetric, without duplicates");
        break;
    }
    case 1: {
        __CPROVER_assume(LE(1)->n <= MAXN && LE(2)->n <= MAXN);
        bool r;
        CALL2(r =, Variable_addEquivalence__ref_ref_s_s, , in_m, in_c);
        if (in_x == 0 || in_y == 0)
            OP_ASSERT(!r, "Variable::addEquivalence(with ids)", "null argument is refused (and not dereferenced)");
        OP_ASSERT(eq_wf(), "Variable::addEquivalence(with ids)", "equivalence stays symmetric, without duplicates");
        break;
    }
    case 2: {
        bool was = in_x && in_y && eq_listed(in_x, in_y);
        bool r;
        CALL2(r =, Variable_removeEquivalence);
        if (in_x == 0 || in_y == 0)
            OP_ASSERT(!r, "Variable::removeEquivalence", "null argument is refused");
        else {
            OP_ASSERT(r == was, "Variable::removeEquivalence", "true exactly when the two variables were equivalent");
            OP_ASSERT(!eq_listed(in_x, in_y) && !eq_listed(in_y, in_x), "Variable::removeEquivalence", "neither variable lists the other afterwards");
            bool before13 = 0, before31 = 0;
            for (size_t k = 0; k < VVEC_CAP; ++k) {
                if (k < LE0[3].n && LE0[3].d[k] == 1)
                    before31 = 1;
                if (k < LE0[1].n && LE0[1].d[k] == 3)
                    before13 = 1;
            }
            OP_ASSERT(eq_listed(3, 1) == before31 && eq_listed(1, 3) == before13, "Variable::removeEquivalence",
                      "exactly that equivalence is removed: the equivalence with a third variable is untouched");
        }
        OP_ASSERT(eq_wf(), "Variable::removeEquivalence", "equivalence stays symmetric, without duplicates");
        break;
    }
    case 3: {
        Variable_removeAllEquivalences(1);
        OP_ASSERT(LE(1)->n == 0, "Variable::removeAllEquivalences", "the variable has no equivalences left");
        OP_ASSERT(!eq_listed(2, 1) && !eq_listed(3, 1), "Variable::removeAllEquivalences", "no variable lists it any more");
        OP_ASSERT(eq_wf(), "Variable::removeAllEquivalences", "equivalence stays symmetric");
        break;
    }
    case 4: {
        ref e = Variable_equivalentVariable(1, in_index);
        OP_ASSERT(e == 0 || (e <= NVAR && __alive[e]), "Variable::equivalentVariable(index)", "never yields a destroyed variable");
        size_t live = 0;
        for (size_t k = 0; k < VVEC_CAP; ++k)
            if (k < LE(1)->n && LE(1)->d[k] <= NVAR)
                ++live;
        OP_ASSERT(Variable_equivalentVariableCount(1) == live, "Variable::equivalentVariableCount", "counts the live equivalent variables");
        OP_ASSERT((e != 0) == (in_index < live), "Variable::equivalentVariable(index)", "null exactly when the index is out of range");
        break;
    }
    default: {
        bool h = in_pattern % 2 ? Variable_hasEquivalentVariable(1, 2, 0) : Variable_hasEquivalentVariable(1, 0, 0);
        ref y = in_pattern % 2 ? 2 : 0;
        OP_ASSERT(h == (y != 0 && eq_listed(1, y)), "Variable::hasEquivalentVariable(direct)", "true exactly for a listed live variable; null is not equivalent");
        break;
    }
    }
    CANARY_HERE();
}
#endif
#ifdef H_EQUIVALENCES
/* indirect search is C18's subject; not reached here (considerIndirectEquivalences == false) */
bool haveEquivalentVariables__rec(ref a, ref b, vvec_ref *t) { __CPROVER_assert(0, "not reached"); return 0; }
#endif
