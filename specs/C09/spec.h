/* C09 - ownership invariants of the object model survive every container operation; bad
 * arguments never crash and change nothing.
 *
 * World of a harness (canonical object ids, DESIGN 2.2): container P = 1 whose operation is
 * called, a second container Q = 2 of the same family (the possible old owner of a moved
 * entity), P's children 3, 4, Q's children 5, 6, a parentless entity 7, P's own parent 8.
 * Invariant WF(X, LIST): every listed child is a live non-null object whose parent is X, and no
 * child is listed twice.  equals() between siblings is the arbitrary equivalence E of C10, so
 * structurally identical siblings exist in the symbolic state.                               */
#ifndef C09_SPEC_H
#define C09_SPEC_H
#include "kinds.h"

unsigned char __kind[HEAP_N];
unsigned __cls[HEAP_N];
bool __alive[HEAP_N];
size_t __addr[HEAP_N];

static inline bool spec_E(ref a, ref b)
{
    return a != 0 && b != 0 && a < HEAP_N && b < HEAP_N && KIND(a) == KIND(b) && __cls[a] == __cls[b];
}

#define PARENT(x) F_ParentedEntityImpl_mParent[x]
#define P_ 1
#define Q_ 2
#define FREE_ 7
#define GP_ 8

#ifndef MAXN
#define MAXN 2
#endif

#endif
