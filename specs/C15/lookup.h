/* C15, annotator.cpp: "a failing result is always explained" for the annotator's lookups, and no lookup
 * indexes past the items that carry the identifier.
 *
 * All typed lookups (component(id[, index]), variable(...), reset(...), ...) are item(id[, index])->accessor();
 * item() decides through AnnotatorImpl::exists().  Ghost state: g_count = number of items carrying `id` in the
 * (refreshed) id index - what itemCount(id) returns and the length of items(id); g_has_model; a_nI = length of the
 * annotator's issue list (update() empties it, each addIssue* helper appends one).
 * World: annotator 1 (its implementation record is the same object); items 2..5; the UNDEFINED item that
 * AnyCellmlElementImpl::create() returns is object 6.                                                        */
#ifndef C15_LOOKUP_H
#define C15_LOOKUP_H
#define OBJ(x) ((x) != 0 && (x) < HEAP_N)
bool __alive[HEAP_N];
size_t __addr[HEAP_N];
size_t G, H;
#define ANN_ 1
#define UNDEF_ 6
size_t g_count, a_nI;
bool g_has_model;

#define PRE(self) (self == ANN_ && F_AnnotatorImpl_mAnnotator[self] == self && a_nI < 1000000)
#define __FC_Annotator_hasModel __CPROVER_requires(self == ANN_) __CPROVER_ensures(__CPROVER_return_value == g_has_model) __CPROVER_assigns()
/* itemCount(id) and items(id) refresh the index first (update(): the issue list is emptied) */
#define __FC_Annotator_itemCount                                                               \
    __CPROVER_requires(self == ANN_)                                                           \
    __CPROVER_assigns(a_nI)                                                                    \
    __CPROVER_ensures(a_nI == 0 && __CPROVER_return_value == g_count)
#define __FC_Annotator_items                                                                   \
    __CPROVER_requires(self == ANN_)                                                           \
    __CPROVER_assigns(a_nI)                                                                    \
    __CPROVER_ensures(a_nI == 0 && __CPROVER_return_value.n == g_count)
#define __FC_Annotator_AnnotatorImpl_update __CPROVER_requires(self == ANN_) __CPROVER_assigns(a_nI) __CPROVER_ensures(a_nI == 0)
#define ADDS_ONE_ISSUE __CPROVER_requires(self == ANN_ && a_nI < 1000000) __CPROVER_assigns(a_nI) __CPROVER_ensures(a_nI == __CPROVER_old(a_nI) + 1)
#define __FC_Annotator_AnnotatorImpl_addIssueNoModel ADDS_ONE_ISSUE
#define __FC_Annotator_AnnotatorImpl_addIssueNonUnique ADDS_ONE_ISSUE
#define __FC_Annotator_AnnotatorImpl_addIssueNotFound ADDS_ONE_ISSUE
#define __FC_AnyCellmlElement_AnyCellmlElementImpl_create __CPROVER_requires(1) __CPROVER_ensures(__CPROVER_return_value == UNDEF_) __CPROVER_assigns()

/* exists(id, index, unique): true only if there IS an item number `index` with that identifier (exactly one
 * item when a unique one is asked for); false is explained by an issue                                       */
#define __FC_Annotator_AnnotatorImpl_exists                                                    \
    __CPROVER_requires(PRE(self) && a_nI == 0)                                                 \
    __CPROVER_assigns(a_nI)                                                                    \
    __CPROVER_ensures(__CPROVER_return_value ==> (g_has_model && index < g_count && (unique ==> g_count == 1) && a_nI == 0)) \
    __CPROVER_ensures(!__CPROVER_return_value ==> a_nI >= 1)
/* item(): either one of the items carrying the identifier, or the UNDEFINED item together with an issue; the
 * vector of items is never indexed out of range (model assertion in the body)                               */
#define ITEM_CONTRACT                                                                          \
    __CPROVER_requires(PRE(self))                                                              \
    __CPROVER_assigns(a_nI)                                                                    \
    __CPROVER_ensures(__CPROVER_return_value != 0)                                             \
    __CPROVER_ensures(__CPROVER_return_value == UNDEF_ ==> a_nI >= 1)                          \
    __CPROVER_ensures(__CPROVER_return_value != UNDEF_ ==> (a_nI == 0 && __CPROVER_return_value < UNDEF_))
#define __FC_Annotator_item__s ITEM_CONTRACT
#define __FC_Annotator_item__s_sz ITEM_CONTRACT
#endif
