#ifdef CANARY
#define CANARY_HERE() __CPROVER_assert(0, "CANARY reachable")
#else
#define CANARY_HERE()
#endif
static void init_lookup(void)
{
    havoc_heap();
    g_count = nondet_size_t();
    a_nI = nondet_size_t();
    g_has_model = nondet_bool();
}
void h_exists(void)
{
    init_lookup();
    sid in_id;
    size_t in_index;
    bool in_unique;
    Annotator_AnnotatorImpl_exists(ANN_, in_id, in_index, in_unique);
    CANARY_HERE();
}
void h_item(void)
{
    init_lookup();
    sid in_id;
    Annotator_item__s(ANN_, in_id);
    CANARY_HERE();
}
void h_item_index(void)
{
    init_lookup();
    sid in_id;
    size_t in_index;
    Annotator_item__s_sz(ANN_, in_id, in_index);
    CANARY_HERE();
}
