#ifdef CANARY
#define CANARY_HERE() __CPROVER_assert(0, "CANARY reachable")
#else
#define CANARY_HERE()
#endif
bool Importer_ImporterImpl_fetchComponent__rec(ref self, ref importComponent, sid baseFile, vvec_ref *history)
FETCH_ENTITY_CONTRACT(importComponent);
bool Importer_ImporterImpl_fetchUnits__rec(ref self, ref importUnits, sid baseFile, vvec_ref *history)
FETCH_ENTITY_CONTRACT(importUnits);

static void init_importer(void)
{
    havoc_heap();
    /* ghost summary of the loggers: arbitrary (constrained by the contract's requires) */
    for (unsigned k = 0; k < 8; ++k) {
        a_nI[k] = nondet_size_t();
        a_nE[k] = nondet_size_t();
        a_nW[k] = nondet_size_t();
        a_nM[k] = nondet_size_t();
    }
    g_tail = nondet_size_t();
    __ncreated = 0;
}
void h_fetchModel(void)
{
    init_importer();
    ref in_self = IMP_, in_source = 3;
    sid in_base;
    Importer_ImporterImpl_fetchModel(in_self, in_source, in_base);
    CANARY_HERE();
}
void h_fetchImportSource(void)
{
    init_importer();
    ref in_self = IMP_, in_source = 3;
    sid in_base;
    Importer_ImporterImpl_fetchImportSource(in_self, in_source, in_base);
    CANARY_HERE();
}
void h_fetchComponent(void)
{
    init_importer();
    ref in_self = IMP_, in_component = 4;
    sid in_base;
    vvec_ref *in_history;
    Importer_ImporterImpl_fetchComponent(in_self, in_component, in_base, in_history);
    CANARY_HERE();
}
void h_fetchUnits(void)
{
    init_importer();
    ref in_self = IMP_, in_units = 5;
    sid in_base;
    vvec_ref *in_history;
    Importer_ImporterImpl_fetchUnits(in_self, in_units, in_base, in_history);
    CANARY_HERE();
}
