/* C15, importer.cpp: the code that deletes errors again (fetchComponent, fetchUnits) and the code that
 * produces them (fetchModel), against the logger contracts of spec.h.
 *
 * The importer never touches the logger's vectors; it calls addIssue / removeError / errorCount / error.
 * Its obligations are therefore stated over GHOST STATE that summarises the logger (DESIGN 3/C15):
 *     a_nI, a_nE, a_nW, a_nM   lengths of mIssues / mErrors / mWarnings / mMessages of each logger
 *     a_lvl[i]                 level of issue object i
 *     g_tail                   TAIL_AT(importer, g_tail, g) holds for every g (spec.h): the last g_tail
 *                              errors are the last g_tail issues and nothing else points there
 *     g_listed[i]              issue i may be in the importer's list
 * Each client contract below is the logger-unit contract of spec.h read through that summary:
 *     addIssue     WF & TAIL(T)            ==>  WF & TAIL(0) & (level ERROR ==> TAIL(T+1))      [h_addIssue_*]
 *     removeError  WF & TAIL(T), T >= 1, index = last error   ==>  WF & TAIL(T-1)                [h_removeError]
 *     setLevel     on an issue that is not listed keeps WF                                       [h_level_frame]
 * so "the logger stays coherent" (WF) is kept by every call whose precondition holds, and the
 * preconditions are what is checked here, at every call site, for every path.
 *
 * World: importer 1 (its implementation record is the same object), the parser created by fetchModel 2,
 * entities 3..7; issues created during the call are NEWBASE, NEWBASE+1, ... in order of creation.      */
#ifndef C15_IMPORTER_H
#define C15_IMPORTER_H
#define OBJ(x) ((x) != 0 && (x) < HEAP_N)
bool __alive[HEAP_N];
size_t __addr[HEAP_N];
size_t G, H;
#define LVL_ERROR 0
#define LVL_WARNING 1
#define LVL_MESSAGE 2
#define NEWBASE 8
#define IMP_ 1
#define PARSER_ 2
#define CAPN 7   /* at most this many issues are created by ONE invocation frame (callees count separately); more: not explored */
#define HALFCAP (PW_CAP / 2 - 16)
size_t a_nI[HEAP_N], a_nE[HEAP_N], a_nW[HEAP_N], a_nM[HEAP_N];
int a_lvl[HEAP_N];
bool g_listed[HEAP_N];
size_t g_tail;
size_t __ncreated;

#define COUNTS(self) a_nI[self], a_nE[self], a_nW[self], a_nM[self]
#define INV(self)                                                                              \
    (self == IMP_ && F_ImporterImpl_mImporter[self] == self && a_nE[self] + a_nW[self] + a_nM[self] == a_nI[self] && \
     a_nE[self] <= a_nI[self] && a_nW[self] <= a_nI[self] && a_nM[self] <= a_nI[self] && a_nI[self] < HALFCAP && g_tail <= a_nE[self] && __ncreated < CAPN)
#define GROWS(self)                                                                            \
    (a_nI[self] >= __CPROVER_old(a_nI[self]) && a_nE[self] >= __CPROVER_old(a_nE[self]) &&     \
     a_nW[self] >= __CPROVER_old(a_nW[self]) && a_nM[self] >= __CPROVER_old(a_nM[self]) && __ncreated >= __CPROVER_old(__ncreated))

/* ---- the logger, client side ---- */
#define __FC_Logger_errorCount __CPROVER_requires(OBJ(self)) __CPROVER_ensures(__CPROVER_return_value == a_nE[self]) __CPROVER_assigns()
#define __FC_Logger_messageCount __CPROVER_requires(OBJ(self)) __CPROVER_ensures(__CPROVER_return_value == a_nM[self]) __CPROVER_assigns()
#define ACCESSOR_CLIENT(N, lvl)                                                                \
    __CPROVER_requires(OBJ(self))                                                              \
    __CPROVER_ensures(index >= N[self] ==> __CPROVER_return_value == 0)                        \
    __CPROVER_ensures(index < N[self] ==> (OBJ(__CPROVER_return_value) && a_lvl[__CPROVER_return_value] == lvl && \
                                           __CPROVER_return_value < NEWBASE + __ncreated && (self != IMP_ ==> __CPROVER_return_value < NEWBASE))) \
    __CPROVER_assigns()
#define __FC_Logger_error ACCESSOR_CLIENT(a_nE, LVL_ERROR)
#define __FC_Logger_message ACCESSOR_CLIENT(a_nM, LVL_MESSAGE)
#define __FC_Logger_LoggerImpl_addIssue                                                        \
    __CPROVER_requires(self == IMP_ && OBJ(issue) && issue < NEWBASE + __ncreated)              \
    __CPROVER_requires(a_lvl[issue] >= 0 && a_lvl[issue] <= 2)                                 \
    __CPROVER_assigns(COUNTS(self), g_tail, g_listed[issue])                                   \
    __CPROVER_ensures(a_nI[self] == __CPROVER_old(a_nI[self]) + 1)                             \
    __CPROVER_ensures(a_nI[self] < HALFCAP) /* capacity assumption: the list never holds 2^19 issues */ \
    __CPROVER_ensures(a_nE[self] == __CPROVER_old(a_nE[self]) + (a_lvl[issue] == LVL_ERROR ? 1 : 0)) \
    __CPROVER_ensures(a_nW[self] == __CPROVER_old(a_nW[self]) + (a_lvl[issue] == LVL_WARNING ? 1 : 0)) \
    __CPROVER_ensures(a_nM[self] == __CPROVER_old(a_nM[self]) + (a_lvl[issue] == LVL_MESSAGE ? 1 : 0)) \
    __CPROVER_ensures(g_tail == (a_lvl[issue] == LVL_ERROR ? __CPROVER_old(g_tail) + 1 : 0))   \
    __CPROVER_ensures(g_listed[issue])
#define __FC_Logger_LoggerImpl_removeError                                                     \
    __CPROVER_requires(self == IMP_ && a_nE[self] >= 1 && index == a_nE[self] - 1 && a_nI[self] >= 1) \
    __CPROVER_requires(g_tail >= 1) /* the error to delete is the last issue */                \
    __CPROVER_assigns(a_nI[self], a_nE[self], g_tail)                                          \
    __CPROVER_ensures(a_nI[self] == __CPROVER_old(a_nI[self]) - 1 && a_nE[self] == __CPROVER_old(a_nE[self]) - 1) \
    __CPROVER_ensures(g_tail == __CPROVER_old(g_tail) - 1)
/* the level of an issue may only be set while the issue is not in the list */
#define __FC_Issue_IssueImpl_setLevel                                                          \
    __CPROVER_requires(OBJ(self) && self >= NEWBASE && self < NEWBASE + __ncreated && !g_listed[self]) \
    __CPROVER_assigns(a_lvl[self])                                                             \
    __CPROVER_ensures(a_lvl[self] == level)
/* a new issue: a fresh object (ids in order of creation), level ERROR, in no list, with an item holder */
#define __FC_Issue_IssueImpl_create                                                            \
    __CPROVER_requires(1)                                                                      \
    __CPROVER_assigns(__ncreated)                                                              \
    __CPROVER_ensures(__CPROVER_old(__ncreated) < CAPN - 1 && __ncreated == __CPROVER_old(__ncreated) + 1) \
    __CPROVER_ensures(__CPROVER_return_value == NEWBASE + __CPROVER_old(__ncreated))           \
    __CPROVER_ensures(a_lvl[__CPROVER_return_value] == LVL_ERROR && !g_listed[__CPROVER_return_value] && \
                      F_IssueImpl_mItem[__CPROVER_return_value] != 0 && F_IssueImpl_mItem[__CPROVER_return_value] < NEWBASE)

/* ---- environment: contract stubs (assumed; listed in the evidence) ---- */
#define STUB_PURE __CPROVER_requires(1) __CPROVER_ensures(1) __CPROVER_assigns()
#define STUB_PURE_REF __CPROVER_requires(1) __CPROVER_ensures(__CPROVER_return_value < NEWBASE) __CPROVER_assigns()
#define STUB_PURE_OBJ __CPROVER_requires(1) __CPROVER_ensures(__CPROVER_return_value != 0 && __CPROVER_return_value < NEWBASE) __CPROVER_assigns()
#define __FC_normaliseDirectorySeparator STUB_PURE
#define __FC_ImportSource_url STUB_PURE
#define __FC_resolvePath STUB_PURE
#define __FC_pathFromUrl STUB_PURE
#define __FC_Issue_description STUB_PURE
#define __FC_Issue_referenceRule STUB_PURE
#define __FC_Issue_item STUB_PURE_OBJ
#define __FC_Strict_isStrict STUB_PURE
#define __FC_Issue_IssueImpl_setDescription STUB_PURE
#define __FC_Issue_IssueImpl_setReferenceRule STUB_PURE
#define __FC_AnyCellmlElement_AnyCellmlElementImpl_setImportSource STUB_PURE
#define __FC_AnyCellmlElement_AnyCellmlElementImpl_setComponent STUB_PURE
#define __FC_AnyCellmlElement_AnyCellmlElementImpl_setUnits STUB_PURE
#define __FC_AnyCellmlElement_units STUB_PURE_REF
#define __FC_ImportSource_setModel STUB_PURE
#define __FC_ImportSource_hasModel STUB_PURE
#define __FC_ImportSource_model STUB_PURE_OBJ
#define __FC_ImportedEntity_importSource STUB_PURE_OBJ
#define __FC_ImportedEntity_importReference STUB_PURE
#define __FC_ImportedEntity_isImport STUB_PURE
#define __FC_Component_requiresImports STUB_PURE
#define __FC_ComponentEntity_componentCount STUB_PURE
#define __FC_ComponentEntity_component__sz STUB_PURE_OBJ
#define __FC_ComponentEntity_component__s_b STUB_PURE_REF
#define __FC_Model_units__s STUB_PURE_REF
#define __FC_NamedEntity_name STUB_PURE
#define __FC_Units_unitAttributeReference STUB_PURE
#define __FC_Units_unitCount STUB_PURE
#define __FC_createHistoryEpoch__ref_s_s STUB_PURE_REF
#define __FC_isErrorRelatedToComponent STUB_PURE
#define __FC_isStandardUnitName STUB_PURE
#define __FC_owningModel STUB_PURE_REF
#define __FC_Importer_ImporterImpl_modelUrl STUB_PURE
#define __FC_Importer_ImporterImpl_resolvingUrl STUB_PURE
#define __FC_unitsNamesUsed                                                                    \
    __CPROVER_requires(1)                                                                      \
    __CPROVER_ensures(1)                                                                       \
    __CPROVER_assigns()
/* the parser is a new object; after parseModel its logger is coherent (C15's obligation for the parser) */
#define __FC_Parser_create __CPROVER_requires(1) __CPROVER_ensures(__CPROVER_return_value == PARSER_) __CPROVER_assigns()
#define __FC_Parser_parseModel                                                                 \
    __CPROVER_requires(self == PARSER_)                                                        \
    __CPROVER_assigns(COUNTS(PARSER_))                                                         \
    __CPROVER_ensures(a_nE[self] < HALFCAP && __CPROVER_return_value < NEWBASE)
/* checkForImportCycles: true means a cycle was found AND reported (it adds the issue itself) */
#define __FC_Importer_ImporterImpl_checkForImportCycles                                        \
    __CPROVER_requires(INV(self))                                                              \
    __CPROVER_assigns(COUNTS(self), g_tail, __ncreated, __CPROVER_object_whole(g_listed), __CPROVER_object_whole(a_lvl)) \
    __CPROVER_ensures(INV(self) && GROWS(self))                                                \
    __CPROVER_ensures(__CPROVER_return_value ==> a_nI[self] > 0)                               \
    __CPROVER_ensures(!__CPROVER_return_value ==> (a_nI[self] == __CPROVER_old(a_nI[self]) && a_nE[self] == __CPROVER_old(a_nE[self]) && g_tail == __CPROVER_old(g_tail)))

/* ---- importer.cpp under contract ---- */
#define FETCH_FRAME(self)                                                                      \
    COUNTS(self), g_tail, __ncreated, __CPROVER_object_whole(g_listed), __CPROVER_object_whole(a_lvl), F_ImporterImpl_mLibrary[self], COUNTS(PARSER_)
/* fetchModel / fetchImportSource: false is explained, and THE ERRORS IT ADDS ARE THE TAIL OF THE ISSUE LIST */
#define FETCH_SOURCE_CONTRACT                                                                  \
    __CPROVER_requires(INV(self) && OBJ(importSource) && importSource < NEWBASE)               \
    __CPROVER_assigns(FETCH_FRAME(self))                                                       \
    __CPROVER_ensures(INV(self) && GROWS(self))                                                \
    __CPROVER_ensures(!__CPROVER_return_value ==> a_nI[self] > 0)                              \
    __CPROVER_ensures(g_tail >= a_nE[self] - __CPROVER_old(a_nE[self]))
#define __FC_Importer_ImporterImpl_fetchModel FETCH_SOURCE_CONTRACT
#define __FC_Importer_ImporterImpl_fetchImportSource FETCH_SOURCE_CONTRACT
#define __LC_Importer_ImporterImpl_fetchModel_0                                                \
    __CPROVER_assigns(LV, COUNTS(self), g_tail, __ncreated, __CPROVER_object_whole(g_listed)) \
    __CPROVER_loop_invariant(LV <= errorCount && errorCount == a_nE[PARSER_] && errorCount < HALFCAP && parser == PARSER_) \
    __CPROVER_loop_invariant(__ncreated == __CPROVER_loop_entry(__ncreated))                   \
    __CPROVER_loop_invariant(a_nE[self] == __CPROVER_loop_entry(a_nE[self]) + LV && a_nI[self] == __CPROVER_loop_entry(a_nI[self]) + LV) \
    __CPROVER_loop_invariant(a_nW[self] == __CPROVER_loop_entry(a_nW[self]) && a_nM[self] == __CPROVER_loop_entry(a_nM[self])) \
    __CPROVER_loop_invariant(g_tail >= LV && g_tail <= a_nE[self] && a_nE[self] <= a_nI[self] && a_nI[self] < HALFCAP && a_nE[self] + a_nW[self] + a_nM[self] == a_nI[self] && a_nW[self] <= a_nI[self] && a_nM[self] <= a_nI[self]) \
    __CPROVER_decreases(errorCount - LV)

/* fetchComponent / fetchUnits: every removeError call deletes the last issue; false is explained */
#define FETCH_ENTITY_CONTRACT(entity)                                                          \
    __CPROVER_requires(INV(self) && OBJ(entity) && entity < NEWBASE)                           \
    __CPROVER_requires(__CPROVER_is_fresh(history, sizeof(*history)))                         \
    __CPROVER_assigns(FETCH_FRAME(self), history->n)                                           \
    __CPROVER_ensures(INV(self))                                                                  \
    __CPROVER_ensures(!__CPROVER_return_value ==> a_nI[self] > 0)                              \
    __CPROVER_ensures(__CPROVER_return_value ==> history->n == __CPROVER_old(history->n))
#define __FC_Importer_ImporterImpl_fetchComponent FETCH_ENTITY_CONTRACT(importComponent)
#define __FC_Importer_ImporterImpl_fetchUnits FETCH_ENTITY_CONTRACT(importUnits)

/* the loops that delete the errors forwarded by fetchModel: the error deleted in each iteration is the last issue */
#define REMOVAL_LOOP                                                                           \
    __CPROVER_assigns(LV, a_nI[self], a_nE[self], g_tail, encounteredRelatedError)          \
    __CPROVER_loop_invariant(startIndex <= LV && LV <= endIndex && a_nE[self] == LV)  \
    __CPROVER_loop_invariant(a_nI[self] + (endIndex - LV) == __CPROVER_loop_entry(a_nI[self])) \
    __CPROVER_loop_invariant(g_tail >= LV - startIndex && g_tail <= a_nE[self] && a_nE[self] <= a_nI[self] && a_nI[self] < HALFCAP) \
    __CPROVER_loop_invariant(a_nE[self] + a_nW[self] + a_nM[self] == a_nI[self] && a_nW[self] <= a_nI[self] && a_nM[self] <= a_nI[self]) \
    __CPROVER_decreases(LV)
#define __LC_Importer_ImporterImpl_fetchUnits_0 REMOVAL_LOOP
#define __LC_Importer_ImporterImpl_fetchComponent_1 REMOVAL_LOOP
/* the loops over children / referenced units: each iteration is a call under its own contract */
#define DESCEND_LOOP(i)                                                                        \
    __CPROVER_assigns(i, FETCH_FRAME(self), history->n)                                        \
    __CPROVER_loop_invariant(INV(self) && history->n == __CPROVER_loop_entry(history->n))
#define __LC_Importer_ImporterImpl_fetchUnits_1 DESCEND_LOOP(LV)
#define __LC_Importer_ImporterImpl_fetchComponent_0 DESCEND_LOOP(LV)
#define __LC_Importer_ImporterImpl_fetchComponent_2 DESCEND_LOOP(LV)
#define __LC_Importer_ImporterImpl_fetchComponent_3 DESCEND_LOOP(__i2) __CPROVER_loop_invariant(__i2 <= __range1->n)
#endif
