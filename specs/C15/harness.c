#ifdef CANARY
#define CANARY_HERE() __CPROVER_assert(0, "CANARY reachable")
#else
#define CANARY_HERE()
#endif

static void init(void)
{
    havoc_heap();
    size_t g, h;
    __CPROVER_assume(g < PW_CAP - 2 && h < PW_CAP - 2); /* larger indices are never valid */
    G = g;
    H = h;
    size_t t;
    T = t;
    ref x;
    X = x;
}

/* one harness per level of the added issue (a finite case split of the same contract) */
#define H_ADD(NAME, LVL)                                                                      \
    void NAME(void)                                                                           \
    {                                                                                         \
        init();                                                                               \
        ref in_self = 1, in_issue = 2; /* canonical ids: DESIGN 2.2 (symmetry of object ids) */ \
        __CPROVER_assume(LEVEL_OF(in_issue) == LVL);                                          \
        Logger_LoggerImpl_addIssue(in_self, in_issue);                                        \
        CANARY_HERE();                                                                        \
    }
H_ADD(h_addIssue_error, LVL_ERROR)
H_ADD(h_addIssue_warning, LVL_WARNING)
H_ADD(h_addIssue_message, LVL_MESSAGE)
void h_removeAllIssues(void)
{
    init();
    ref in_self = 1;
    Logger_LoggerImpl_removeAllIssues(in_self);
    CANARY_HERE();
}
void h_removeError(void)
{
    init();
    ref in_self = 1;
    size_t in_index;
    Logger_LoggerImpl_removeError(in_self, in_index);
    CANARY_HERE();
}
#define H_COUNT(fn)                                                                           \
    void h_##fn(void)                                                                         \
    {                                                                                         \
        ref in_self = 1;                                                                          \
        init();                                                                               \
        Logger_##fn(in_self);                                                                 \
        CANARY_HERE();                                                                        \
    }
H_COUNT(issueCount)
H_COUNT(errorCount)
H_COUNT(warningCount)
H_COUNT(messageCount)
#define H_GET(fn)                                                                             \
    void h_##fn(void)                                                                         \
    {                                                                                         \
        ref in_self = 1;                                                                          \
        size_t in_index;                                                                      \
        init();                                                                               \
        Logger_##fn(in_self, in_index);                                                       \
        CANARY_HERE();                                                                        \
    }
H_GET(issue)
H_GET(error)
H_GET(warning)
H_GET(message)

/* lemma (no code): the invariant does not depend on the level of an object that is not listed */
void h_level_frame(void)
{
    init();
    ref in_self = 1;
    ISSUES(in_self).d = PW_FRESH(ref);
    ERRORS(in_self).d = PW_FRESH(size_t);
    WARNINGS(in_self).d = PW_FRESH(size_t);
    MESSAGES(in_self).d = PW_FRESH(size_t);
    __CPROVER_assume(WF_LOGGER(in_self) && LASTS(in_self) && NOT_LISTED(in_self, X) && X < HEAP_N);
    int lvl;
    LEVEL_OF(X) = lvl;
    __CPROVER_assert(WF_LOGGER(in_self) && LASTS(in_self), "changing the level of an issue that is not in the list keeps the logger coherent");
    CANARY_HERE();
}
