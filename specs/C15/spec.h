/* C15 - the logger's issue list and its three per-level index lists stay coherent.
 *
 * View: mIssues is the sequence of issues; mErrors / mWarnings / mMessages are the index
 * subsequences of each level.  Invariant WF (pointwise at the ghost indices G, G+1), per level
 * vector V of level l:
 *     G   < |V|  ==>  V[G] < |mIssues|  and  level(mIssues[V[G]]) == l
 *     G+1 < |V|  ==>  V[G] < V[G+1]                       (strictly increasing: in order, no repeats)
 * and |mErrors| + |mWarnings| + |mMessages| == |mIssues|   (the count equation of the property).
 * With the count equation, "in range, right level, strictly increasing" gives "enumerates
 * exactly the issues of that level in order" by pigeonhole (DESIGN 3/C15).                  */
#ifndef C15_SPEC_H
#define C15_SPEC_H

size_t G, H;
#define OBJ(x) ((x) != 0 && (x) < HEAP_N)
bool __alive[HEAP_N];
size_t __addr[HEAP_N];

#define ISSUES(L) F_LoggerImpl_mIssues[L]
#define ERRORS(L) F_LoggerImpl_mErrors[L]
#define WARNINGS(L) F_LoggerImpl_mWarnings[L]
#define MESSAGES(L) F_LoggerImpl_mMessages[L]
#define LEVEL_OF(i) F_IssueImpl_mLevel[i]
#define LVL_ERROR 0
#define LVL_WARNING 1
#define LVL_MESSAGE 2

#define WF_VEC(L, V, lvl)                                                                     \
    ((G < V(L).n ==> (V(L).d[G] < ISSUES(L).n && OBJ(ISSUES(L).d[V(L).d[G]]) &&               \
                      LEVEL_OF(ISSUES(L).d[V(L).d[G]]) == lvl)) &&                            \
     (G + 1 < V(L).n ==> V(L).d[G] < V(L).d[G + 1]) &&                                        \
     (V(L).n != 0 && G == V(L).n - 1 ==> V(L).d[G] < ISSUES(L).n))

#define WF_LOGGER(L)                                                                          \
    (ISSUES(L).n < PW_CAP && ERRORS(L).n + WARNINGS(L).n + MESSAGES(L).n == ISSUES(L).n && \
     ERRORS(L).n <= ISSUES(L).n && WARNINGS(L).n <= ISSUES(L).n && MESSAGES(L).n <= ISSUES(L).n && \
     WF_VEC(L, ERRORS, LVL_ERROR) && WF_VEC(L, WARNINGS, LVL_WARNING) && WF_VEC(L, MESSAGES, LVL_MESSAGE))

/* every element of a level vector is below |mIssues|: needed at the LAST element when an issue
 * is appended (its index is |mIssues|, larger than every stored one).  Pointwise: at G.       */
#define LAST_BELOW(L, V) (V(L).n != 0 ==> V(L).d[V(L).n - 1] < ISSUES(L).n)

/* ---- what importer.cpp relies on when it deletes errors again (fetchComponent, fetchUnits) ----------------
 * TAIL_AT(L, t, g), for every g: the last t entries of mErrors are the positions of the last t issues, in
 * order, and no other stored index points into those t issues.  The ghost T is arbitrary.               */
size_t T;
#define TAIL_AT(L, t, g)                                                                      \
    ((t) <= ERRORS(L).n && (t) <= ISSUES(L).n &&                                               \
     ((g) < ERRORS(L).n && (g) >= ERRORS(L).n - (t) ==> ERRORS(L).d[g] == ISSUES(L).n - (ERRORS(L).n - (g))) && \
     ((g) < ERRORS(L).n - (t) ==> ERRORS(L).d[g] < ISSUES(L).n - (t)) &&                        \
     ((g) < WARNINGS(L).n ==> WARNINGS(L).d[g] < ISSUES(L).n - (t)) &&                          \
     ((g) < MESSAGES(L).n ==> MESSAGES(L).d[g] < ISSUES(L).n - (t)))
/* the object X (ghost, arbitrary) is not listed: changing its level cannot break the invariant */
ref X;
#define NOT_LISTED_V(L, V, x) (G < V(L).n ==> ISSUES(L).d[V(L).d[G]] != (x))
#define NOT_LISTED(L, x) (NOT_LISTED_V(L, ERRORS, x) && NOT_LISTED_V(L, WARNINGS, x) && NOT_LISTED_V(L, MESSAGES, x))
#define LASTS(L) (LAST_BELOW(L, ERRORS) && LAST_BELOW(L, WARNINGS) && LAST_BELOW(L, MESSAGES))

#define FRESH_VEC(V, T) __CPROVER_is_fresh(V.d, sizeof(T) * (size_t)PW_CAP)
#define FRESH_LOGGER(L) (FRESH_VEC(ISSUES(L), ref) && FRESH_VEC(ERRORS(L), size_t) && FRESH_VEC(WARNINGS(L), size_t) && FRESH_VEC(MESSAGES(L), size_t))

#define __FC_Issue_level                                                                      \
    __CPROVER_requires(OBJ(self))                                                              \
    __CPROVER_ensures(__CPROVER_return_value == LEVEL_OF(self))                                \
    __CPROVER_assigns()

/* addIssue: appends `issue`; exactly the vector of its level grows, by the new index.        */
#define __FC_Logger_LoggerImpl_addIssue                                                        \
    __CPROVER_requires(OBJ(self) && OBJ(issue) && FRESH_LOGGER(self) && ISSUES(self).n < PW_CAP - 2)                          \
    __CPROVER_requires(LEVEL_OF(issue) >= 0 && LEVEL_OF(issue) <= 2)                           \
    __CPROVER_requires(WF_LOGGER(self))                                                        \
    __CPROVER_requires(LAST_BELOW(self, ERRORS) && LAST_BELOW(self, WARNINGS) && LAST_BELOW(self, MESSAGES)) \
    __CPROVER_requires(TAIL_AT(self, T, G) && T < PW_CAP && NOT_LISTED(self, X))                \
    __CPROVER_assigns(ISSUES(self), ERRORS(self), WARNINGS(self), MESSAGES(self),              \
                      __CPROVER_object_whole(ISSUES(self).d), __CPROVER_object_whole(ERRORS(self).d), \
                      __CPROVER_object_whole(WARNINGS(self).d), __CPROVER_object_whole(MESSAGES(self).d)) \
    __CPROVER_ensures(WF_LOGGER(self))                                                         \
    __CPROVER_ensures(LAST_BELOW(self, ERRORS) && LAST_BELOW(self, WARNINGS) && LAST_BELOW(self, MESSAGES)) \
    __CPROVER_ensures(LEVEL_OF(issue) == LVL_ERROR ==> TAIL_AT(self, T + 1, G))                \
    __CPROVER_ensures(TAIL_AT(self, 0, G))                                                     \
    __CPROVER_ensures(X != issue ==> NOT_LISTED(self, X))                                      \
    __CPROVER_ensures(ISSUES(self).n == __CPROVER_old(ISSUES(self).n) + 1)                     \
    __CPROVER_ensures(ISSUES(self).d[__CPROVER_old(ISSUES(self).n)] == issue)                  \
    __CPROVER_ensures(G < __CPROVER_old(ISSUES(self).n) ==> ISSUES(self).d[G] == __CPROVER_old(ISSUES(self).d)[G]) \
    __CPROVER_ensures(ERRORS(self).n == __CPROVER_old(ERRORS(self).n) + (LEVEL_OF(issue) == LVL_ERROR ? 1 : 0)) \
    __CPROVER_ensures(WARNINGS(self).n == __CPROVER_old(WARNINGS(self).n) + (LEVEL_OF(issue) == LVL_WARNING ? 1 : 0)) \
    __CPROVER_ensures(MESSAGES(self).n == __CPROVER_old(MESSAGES(self).n) + (LEVEL_OF(issue) == LVL_MESSAGE ? 1 : 0)) \
    __CPROVER_ensures(G < __CPROVER_old(ERRORS(self).n) ==> ERRORS(self).d[G] == __CPROVER_old(ERRORS(self).d)[G]) \
    __CPROVER_ensures(G < __CPROVER_old(WARNINGS(self).n) ==> WARNINGS(self).d[G] == __CPROVER_old(WARNINGS(self).d)[G]) \
    __CPROVER_ensures(G < __CPROVER_old(MESSAGES(self).n) ==> MESSAGES(self).d[G] == __CPROVER_old(MESSAGES(self).d)[G])

#define __FC_Logger_LoggerImpl_removeAllIssues                                                 \
    __CPROVER_requires(OBJ(self))                                                              \
    __CPROVER_assigns(ISSUES(self), ERRORS(self), WARNINGS(self), MESSAGES(self))              \
    __CPROVER_ensures(ISSUES(self).n == 0 && ERRORS(self).n == 0 && WARNINGS(self).n == 0 && MESSAGES(self).n == 0) \
    __CPROVER_ensures(WF_LOGGER(self))

/* accessors: count equation, in-range index yields the issue of that level, out of range null */
#define __FC_Logger_issueCount                                                                 \
    __CPROVER_requires(OBJ(self) && FRESH_LOGGER(self) && WF_LOGGER(self))                                           \
    __CPROVER_ensures(__CPROVER_return_value == ERRORS(self).n + WARNINGS(self).n + MESSAGES(self).n) \
    __CPROVER_assigns()
#define __FC_Logger_errorCount                                                                 \
    __CPROVER_requires(OBJ(self))                                                              \
    __CPROVER_ensures(__CPROVER_return_value == ERRORS(self).n)                                \
    __CPROVER_assigns()
#define __FC_Logger_warningCount                                                               \
    __CPROVER_requires(OBJ(self))                                                              \
    __CPROVER_ensures(__CPROVER_return_value == WARNINGS(self).n)                              \
    __CPROVER_assigns()
#define __FC_Logger_messageCount                                                               \
    __CPROVER_requires(OBJ(self))                                                              \
    __CPROVER_ensures(__CPROVER_return_value == MESSAGES(self).n)                              \
    __CPROVER_assigns()

/* the arbitrary index of the query is the ghost index: requires index == G */
#define ACCESSOR_CONTRACT(V, lvl)                                                              \
    __CPROVER_requires(OBJ(self) && FRESH_LOGGER(self) && WF_LOGGER(self) && index == G)                             \
    __CPROVER_ensures(index >= V(self).n ==> __CPROVER_return_value == 0)                      \
    __CPROVER_ensures(index < V(self).n ==> (__CPROVER_return_value == ISSUES(self).d[V(self).d[index]] && \
                                             __CPROVER_return_value != 0 && LEVEL_OF(__CPROVER_return_value) == lvl)) \
    __CPROVER_assigns()
#define __FC_Logger_error ACCESSOR_CONTRACT(ERRORS, LVL_ERROR)
#define __FC_Logger_warning ACCESSOR_CONTRACT(WARNINGS, LVL_WARNING)
#define __FC_Logger_message ACCESSOR_CONTRACT(MESSAGES, LVL_MESSAGE)
#define __FC_Logger_issue                                                                      \
    __CPROVER_requires(OBJ(self) && FRESH_LOGGER(self) && ISSUES(self).n < PW_CAP)                                                              \
    __CPROVER_ensures(index >= ISSUES(self).n ==> __CPROVER_return_value == 0)                 \
    __CPROVER_ensures(index < ISSUES(self).n ==> __CPROVER_return_value == ISSUES(self).d[index]) \
    __CPROVER_assigns()

/* removeError(index): the code erases the issue and its index entry but does not renumber the indices
 * stored after it.  It is therefore correct exactly when the error is the last issue; that is what TAIL
 * (with t >= 1, index the last error) provides.  TAIL is used at the two indices the code reads.       */
#define __FC_Logger_LoggerImpl_removeError                                                     \
    __CPROVER_requires(OBJ(self) && FRESH_LOGGER(self) && WF_LOGGER(self) && LASTS(self))      \
    __CPROVER_requires(T >= 1 && TAIL_AT(self, T, G) && TAIL_AT(self, T, index) && TAIL_AT(self, T, G + 1)) \
    __CPROVER_requires((WARNINGS(self).n != 0 ==> TAIL_AT(self, T, WARNINGS(self).n - 1)) && (MESSAGES(self).n != 0 ==> TAIL_AT(self, T, MESSAGES(self).n - 1)) && \
                       (ERRORS(self).n >= 2 ==> TAIL_AT(self, T, ERRORS(self).n - 2)))         \
    __CPROVER_requires(index == ERRORS(self).n - 1 && NOT_LISTED(self, X))                     \
    __CPROVER_assigns(ISSUES(self), ERRORS(self))                                              \
    __CPROVER_ensures(WF_LOGGER(self))                                                         \
    __CPROVER_ensures(LASTS(self))                                                             \
    __CPROVER_ensures(TAIL_AT(self, T - 1, G))                                                 \
    __CPROVER_ensures(NOT_LISTED(self, X))                                                     \
    __CPROVER_ensures(ISSUES(self).n == __CPROVER_old(ISSUES(self).n) - 1)                     \
    __CPROVER_ensures(ERRORS(self).n == __CPROVER_old(ERRORS(self).n) - 1)                     \
    __CPROVER_ensures(WARNINGS(self).n == __CPROVER_old(WARNINGS(self).n) && MESSAGES(self).n == __CPROVER_old(MESSAGES(self).n)) \
    __CPROVER_ensures(G < ISSUES(self).n ==> ISSUES(self).d[G] == __CPROVER_old(ISSUES(self).d)[G]) \
    __CPROVER_ensures(G < ERRORS(self).n ==> ERRORS(self).d[G] == __CPROVER_old(ERRORS(self).d)[G])

#endif
