#ifdef CANARY
#define CANARY_HERE() __CPROVER_assert(0, "CANARY reachable")
#else
#define CANARY_HERE()
#endif
/* the object tree as ghost tables: arbitrary, with children / variables listed once and knowing their parent */
static void init_tree(void)
{
    havoc_heap(); /* every object field the lowered code reads - also one a change starts to read - is arbitrary */
    for (unsigned k = 0; k < HEAP_N; ++k) {
        g_nchild[k] = nondet_size_t();
        g_nvar[k] = nondet_size_t();
        g_neq[k] = nondet_size_t();
        g_parent[k] = nondet_ref();
        __CPROVER_assume(g_nchild[k] <= MAXW && g_nvar[k] <= MAXW && g_neq[k] <= MAXW && g_parent[k] < HEAP_N);
        for (unsigned i = 0; i < MAXW; ++i) {
            g_child[k][i] = nondet_ref();
            g_var[k][i] = nondet_ref();
            g_eqv[k][i] = nondet_ref();
            __CPROVER_assume(OBJ(g_child[k][i]) && OBJ(g_var[k][i]) && OBJ(g_eqv[k][i]));
        }
        for (unsigned j = 0; j < HEAP_N; ++j)
            g_eq[k][j] = nondet_bool();
    }
}
static gstack any_gstack(void)
{
    gstack s;
    s.n = nondet_size_t();
    __CPROVER_assume(s.n >= 1 && s.n <= 3);
    for (unsigned i = 0; i < 4; ++i)
        s.d[i] = nondet_size_t();
    return s;
}
#define TO_G(g, v) do { (g).n = (v).n; for (unsigned i_ = 0; i_ < 4; ++i_) (g).d[i_] = i_ < VVEC_CAP ? (v).d[i_] : 0; } while (0)
static vvec_sz any_stack(void)
{
    vvec_sz s = vvec_sz_new();
    s.n = nondet_size_t();
    __CPROVER_assume(s.n >= 1 && s.n <= 3);
    for (unsigned i = 0; i < 3; ++i)
        s.d[i] = nondet_size_t();
    return s;
}

/* makeEquivalence(path1, path2, model): afterwards the two located variables are directly equivalent */
void h_makeEquivalence(void)
{
    init_tree();
    g_s1 = any_gstack();
    g_s2 = any_gstack();
    g_v1 = nondet_ref();
    g_v2 = nondet_ref();
    __CPROVER_assume(STACK_EQ(g_s1, g_s2) ==> g_v1 == g_v2); /* one path, one variable */
    ref in_model = 1;
    g_model = in_model;
    vvec_sz in_s1 = any_stack(), in_s2 = any_stack();
    makeEquivalence(in_s1, in_s2, in_model);
    CANARY_HERE();
}

/* applyEquivalenceMapToModel: makeEquivalence is called for every (key, element) pair of the map.
 * The pair (K, J) is arbitrary; the stub records the call whose arguments are that pair.          */
void h_applyEquivalenceMap(void)
{
    vmap_vvec_sz_vvec_vvec_sz in_map = vmap_vvec_sz_vvec_vvec_sz_new();
    in_map.n = nondet_size_t();
    __CPROVER_assume(in_map.n <= MAXW);
    for (unsigned k = 0; k < MAXW; ++k) {
        in_map.d[k].first = any_stack();
        in_map.d[k].second = vvec_vvec_sz_new();
        in_map.d[k].second.n = nondet_size_t();
        __CPROVER_assume(in_map.d[k].second.n <= MAXW);
        for (unsigned j = 0; j < MAXW; ++j)
            in_map.d[k].second.d[j] = any_stack();
    }
    size_t K = nondet_size_t(), J = nondet_size_t();
    __CPROVER_assume(K < in_map.n && J < in_map.d[K].second.n);
    TO_G(g_s1, in_map.d[K].first);
    TO_G(g_s2, in_map.d[K].second.d[J]);
    ref in_model = 1;
    g_model = in_model;
    g_v1 = 5;
    g_v2 = 6;
    g_eq[g_v1][g_v2] = 0;
    applyEquivalenceMapToModel(in_map, in_model);
    __CPROVER_assert(g_eq[g_v1][g_v2], "applyEquivalenceMapToModel makes the equivalence of every (variable path, equivalent variable path) pair of the map, in the given model");
    CANARY_HERE();
}

/* recordVariableEquivalences(component, map, path): for variable I of the component with equivalences, the map
 * gets the key path ++ [I] whose list is the paths of ALL its equivalent variables in order; the path is restored */
void h_recordVariableEquivalences(void)
{
    init_tree();
    for (unsigned k = 0; k < HEAP_N; ++k)
        g_stk[k] = any_gstack();
    ref in_component = 2;
    vvec_sz in_stack = vvec_sz_new();
    in_stack.n = nondet_size_t();
    __CPROVER_assume(in_stack.n >= 1 && in_stack.n <= 2);
    in_stack.d[0] = nondet_size_t();
    in_stack.d[1] = nondet_size_t();
    vmap_vvec_sz_vvec_vvec_sz in_map = vmap_vvec_sz_vvec_vvec_sz_new(); /* keys recorded earlier have other prefixes: start empty */
    vvec_sz before = in_stack;
    size_t I = nondet_size_t(), J = nondet_size_t();
    __CPROVER_assume(I < g_nvar[in_component] && J < g_neq[g_var[in_component][I]]);
    /* distinct variables of the component (C09) */
    __CPROVER_assume(g_nvar[in_component] < 2 || g_var[in_component][0] != g_var[in_component][1]);
    recordVariableEquivalences(in_component, &in_map, &in_stack);
    __CPROVER_assert(STACK_EQ(in_stack, before), "recordVariableEquivalences restores the running index path");
    vvec_sz key = before;
    key.d[key.n] = I;
    key.n = key.n + 1;
    bool found = 0;
    for (unsigned k = 0; k < MAXW; ++k) {
        if (k < in_map.n && STACK_EQ(in_map.d[k].first, key)) {
            found = 1;
            ref v = g_var[in_component][I];
            __CPROVER_assert(in_map.d[k].second.n == g_neq[v], "the entry of a variable lists as many paths as the variable has equivalent variables");
            __CPROVER_assert(J < in_map.d[k].second.n && STACK_EQ(in_map.d[k].second.d[J], g_stk[g_eqv[v][J]]), "the J-th path of the entry is the path of the J-th equivalent variable");
        }
    }
    __CPROVER_assert(found, "a variable with equivalences gets an entry keyed by its own index path");
    CANARY_HERE();
}

/* indexStackOf(v) followed by getVariableLocatedAt(., model of v) is the identity: tree of depth <= 3 (model,
 * component, child component), well formed as C09 keeps it (children know their parent and are listed once) */
void h_path_roundtrip(void)
{
    init_tree();
    ref M = 1;
    __CPROVER_assume(g_parent[M] == 0);
    for (unsigned k = 1; k < HEAP_N; ++k)
        __CPROVER_assume(KIND(k) == (k == 1 ? K_MODEL : (k <= 4 ? K_COMPONENT : K_VARIABLE)));
    ref v = nondet_ref();
    __CPROVER_assume(v >= 5 && v < HEAP_N);
    ref c = g_parent[v];
    __CPROVER_assume(c >= 2 && c <= 4);
    ref p = g_parent[c];
    __CPROVER_assume(p == M || (p >= 2 && p <= 4 && p != c && g_parent[p] == M));
    /* listed exactly once in the parent (C09) */
    for (unsigned x = 1; x < HEAP_N; ++x)
        for (unsigned i = 0; i < MAXW; ++i) {
            if (i < g_nchild[x])
                __CPROVER_assume(g_parent[g_child[x][i]] == x && IS_Component(g_child[x][i]));
            if (i < g_nvar[x])
                __CPROVER_assume(g_parent[g_var[x][i]] == x);
        }
    for (unsigned x = 1; x < HEAP_N; ++x) {
        __CPROVER_assume(g_nchild[x] < 2 || g_child[x][0] != g_child[x][1]);
        __CPROVER_assume(g_nvar[x] < 2 || g_var[x][0] != g_var[x][1]);
    }
    vvec_sz s = indexStackOf__ref(v);
    __CPROVER_assert(s.n >= 2 && s.n <= 3, "the path of a variable has one index per level");
    ref r = getVariableLocatedAt(s, M);
    __CPROVER_assert(r == v, "locating the index path of a variable in its model yields that variable");
    CANARY_HERE();
}

/* generateEquivalenceMap(component, map, path): child I is recorded and descended into under path ++ [I] */
size_t g_I;
void generateEquivalenceMap__rec(ref component, vmap_vvec_sz_vvec_vvec_sz *map, vvec_sz *indexStack)
GEN_REC_CONTRACT;
void h_generateEquivalenceMap(void)
{
    init_tree();
    ref in_component = 2;
    vvec_sz in_stack = vvec_sz_new();
    in_stack.n = nondet_size_t();
    __CPROVER_assume(in_stack.n <= 1);
    in_stack.d[0] = nondet_size_t();
    vvec_sz before = in_stack;
    vmap_vvec_sz_vvec_vvec_sz in_map = vmap_vvec_sz_vvec_vvec_sz_new();
    g_I = nondet_size_t();
    __CPROVER_assume(g_I < g_nchild[in_component]);
    g_c = g_child[in_component][g_I];
    __CPROVER_assume(g_nchild[in_component] < 2 || g_child[in_component][0] != g_child[in_component][1]);
    TO_G(g_s1, before);
    g_s1.d[g_s1.n] = g_I;
    g_s1.n = g_s1.n + 1;
    g_hit_rec = 0;
    g_hit_gen = 0;
    generateEquivalenceMap(in_component, &in_map, &in_stack);
    __CPROVER_assert(g_hit_rec && g_hit_gen, "every child component is recorded and descended into under the path of the parent extended by its index");
    __CPROVER_assert(STACK_EQ(in_stack, before), "generateEquivalenceMap restores the running index path");
    CANARY_HERE();
}

