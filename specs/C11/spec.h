/* C11 - clone() is a faithful, independent deep copy.
 *
 * create() is a contract stub: a FRESH object (heap_alloc) whose fields have the defaults of the
 * implementation record.  clone() of a child object is a contract stub too: a fresh object that
 * equals (E) the child and has no parent.  E is the arbitrary equivalence of C10.             */
#ifndef C11_SPEC_H
#define C11_SPEC_H
#include "kinds.h"

unsigned char __kind[HEAP_N];
unsigned __cls[HEAP_N];
bool __alive[HEAP_N];
size_t __addr[HEAP_N];

static inline bool spec_E(ref a, ref b)
{
    return a != 0 && b != 0 && a < HEAP_N && b < HEAP_N && KIND(a) == KIND(b) && __cls[a] == __cls[b];
}
#define FIRST_FREE 5 /* objects 1..4 exist before the call; everything from 5 on is fresh */
#endif
