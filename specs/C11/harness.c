#ifdef CANARY
#define CANARY_HERE() __CPROVER_assert(0, "CANARY reachable")
#else
#define CANARY_HERE()
#endif

bool V_doEquals(ref self, ref other)
{
    return spec_E(self, other);
}

static void init(void)
{
    havoc_heap();
    __CPROVER_havoc_object(__kind);
    __CPROVER_havoc_object(__cls);
    for (unsigned k = 0; k < HEAP_N; ++k) {
        __CPROVER_assume(__kind[k] >= 1 && __kind[k] <= K_MAX);
        __alive[k] = nondet_bool();
    }
    __next_free = FIRST_FREE;
}
static ref fresh_equal_copy(ref self, unsigned char kind)
{
    ref r = heap_alloc(kind);
    __cls[r] = __cls[self];
    return r;
}
#define CHILD(x, kind) __CPROVER_assume((x) == 0 || ((x) >= 2 && (x) < FIRST_FREE && KIND(x) == (kind)))
/* a cloned child: present iff the original is, fresh, equal to the original, not the original */
#define CHILD_CLONED(orig, copy, what)                                                        \
    __CPROVER_assert(((orig) == 0) == ((copy) == 0), what ": present in the clone exactly when present in the original"); \
    if ((orig) != 0) {                                                                        \
        __CPROVER_assert((copy) >= FIRST_FREE, what ": the clone holds its own copy, not the original's object"); \
        __CPROVER_assert(spec_E((copy), (orig)), what ": the copy equals the original's");    \
    }
#define UNCHANGED_BEFORE_CALL()                                                               \
    for (ref k = 1; k < FIRST_FREE; ++k)                                                      \
        __CPROVER_assert(heap_same_at(k), "clone() changes nothing that existed before the call (original and its children untouched)")
#ifdef HAVE_F_ParentedEntityImpl_mParent
#define NO_PARENT(r) __CPROVER_assert(F_ParentedEntityImpl_mParent[r] == 0, "the clone has no parent")
#else
#define NO_PARENT(r) /* the lowered clone chain never touches the parent field: it keeps create()'s default (none) */
#endif

#ifdef H_RESET
/* an unset order is stored as 0 */
#define RESET_ORDER_INV(x) (F_ResetImpl_mOrderSet[x] || F_ResetImpl_mOrder[x] == 0)
ref Reset_create__void(void) { return heap_alloc(K_RESET); }
void h_Reset_order_invariant(void)
{
    init();
    ref in_self = 1;
    int in_order;
    __CPROVER_assume(KIND(in_self) == K_RESET);
    ref fresh = Reset_create__void();
    __CPROVER_assert(RESET_ORDER_INV(fresh) && !F_ResetImpl_mOrderSet[fresh], "a new reset has no order set (stored as 0)");
    Reset_setOrder(in_self, in_order);
    __CPROVER_assert(RESET_ORDER_INV(in_self) && F_ResetImpl_mOrderSet[in_self] && F_ResetImpl_mOrder[in_self] == in_order, "setOrder sets the order");
    Reset_removeOrder(in_self);
    __CPROVER_assert(RESET_ORDER_INV(in_self) && !F_ResetImpl_mOrderSet[in_self], "removeOrder unsets the order (stored as 0)");
    CANARY_HERE();
}
ref Variable_clone(ref self) { return fresh_equal_copy(self, K_VARIABLE); }
void h_Reset_clone(void)
{
    init();
    ref in_self = 1;
    __CPROVER_assume(KIND(in_self) == K_RESET);
    CHILD(F_ResetImpl_mVariable[in_self], K_VARIABLE);
    CHILD(F_ResetImpl_mTestVariable[in_self], K_VARIABLE);
    bool ce_orderSet = F_ResetImpl_mOrderSet[in_self];
    __CPROVER_assume(RESET_ORDER_INV(in_self)); /* representation invariant, established by h_Reset_order_invariant */
    heap_snapshot();
    ref r = Reset_clone(in_self);
    __CPROVER_assert(r >= FIRST_FREE && KIND(r) == K_RESET, "Reset::clone returns a new Reset");
    __CPROVER_assert(F_EntityImpl_mId[r] == F_EntityImpl_mId[in_self], "Reset clone: same id");
    __CPROVER_assert(F_ResetImpl_mOrder[r] == F_ResetImpl_mOrder[in_self], "Reset clone: same order value");
    __CPROVER_assert(F_ResetImpl_mOrderSet[r] == F_ResetImpl_mOrderSet[in_self], "Reset clone: order is set exactly when the original's is");
    __CPROVER_assert(F_ResetImpl_mResetValue[r] == F_ResetImpl_mResetValue[in_self], "Reset clone: same reset value");
    __CPROVER_assert(F_ResetImpl_mResetValueId[r] == F_ResetImpl_mResetValueId[in_self], "Reset clone: same reset value id");
    __CPROVER_assert(F_ResetImpl_mTestValue[r] == F_ResetImpl_mTestValue[in_self], "Reset clone: same test value");
    __CPROVER_assert(F_ResetImpl_mTestValueId[r] == F_ResetImpl_mTestValueId[in_self], "Reset clone: same test value id");
    CHILD_CLONED(F_ResetImpl_mVariable[in_self], F_ResetImpl_mVariable[r], "Reset clone: variable");
    CHILD_CLONED(F_ResetImpl_mTestVariable[in_self], F_ResetImpl_mTestVariable[r], "Reset clone: test variable");
    __CPROVER_assert(Reset_doEquals(r, in_self) && Reset_doEquals(in_self, r), "Reset clone equals the original");
    NO_PARENT(r);
    UNCHANGED_BEFORE_CALL();
    CANARY_HERE();
}
#endif

#ifdef H_VARIABLE
ref Variable_create__void(void) { ref r = heap_alloc(K_VARIABLE);
#ifdef HAVE_F_VariableImpl_mVariable
    F_VariableImpl_mVariable[r] = r; /* the constructor records `this` */
#endif
    return r; }
ref Units_clone(ref self) { return fresh_equal_copy(self, K_UNITS); }
void h_Variable_clone(void)
{
    init();
    ref in_self = 1;
    __CPROVER_assume(KIND(in_self) == K_VARIABLE);
    CHILD(F_VariableImpl_mUnits[in_self], K_UNITS);
    heap_snapshot();
    ref r = Variable_clone(in_self);
    __CPROVER_assert(r >= FIRST_FREE && KIND(r) == K_VARIABLE, "Variable::clone returns a new Variable");
    __CPROVER_assert(F_EntityImpl_mId[r] == F_EntityImpl_mId[in_self], "Variable clone: same id");
    __CPROVER_assert(F_NamedEntityImpl_mName[r] == F_NamedEntityImpl_mName[in_self], "Variable clone: same name");
    __CPROVER_assert(F_VariableImpl_mInitialValue[r] == F_VariableImpl_mInitialValue[in_self], "Variable clone: same initial value");
    __CPROVER_assert(F_VariableImpl_mInterfaceType[r] == F_VariableImpl_mInterfaceType[in_self], "Variable clone: same interface type");
    CHILD_CLONED(F_VariableImpl_mUnits[in_self], F_VariableImpl_mUnits[r], "Variable clone: units");
#ifdef HAVE_F_VariableImpl_mEquivalentVariables
    __CPROVER_assert(F_VariableImpl_mEquivalentVariables[r].n == 0, "a lone cloned variable has no equivalences (documented)");
#endif
    __CPROVER_assert(Variable_doEquals(r, in_self) && Variable_doEquals(in_self, r), "Variable clone equals the original");
    NO_PARENT(r);
    UNCHANGED_BEFORE_CALL();
    CANARY_HERE();
}
#endif

#ifdef H_IMPORTSOURCE
ref ImportSource_create(void) { return heap_alloc(K_IMPORTSOURCE); }
void h_ImportSource_clone(void)
{
    init();
    ref in_self = 1;
    __CPROVER_assume(KIND(in_self) == K_IMPORTSOURCE);
    __CPROVER_assume(F_ImportSourceImpl_mModel[in_self] < FIRST_FREE);
    heap_snapshot();
    ref r = ImportSource_clone(in_self);
    __CPROVER_assert(r >= FIRST_FREE && KIND(r) == K_IMPORTSOURCE, "ImportSource::clone returns a new ImportSource");
    __CPROVER_assert(F_EntityImpl_mId[r] == F_EntityImpl_mId[in_self], "ImportSource clone: same id");
    __CPROVER_assert(F_ImportSourceImpl_mUrl[r] == F_ImportSourceImpl_mUrl[in_self], "ImportSource clone: same url");
    __CPROVER_assert(WEAK_LOCK(F_ImportSourceImpl_mModel[r]) == WEAK_LOCK(F_ImportSourceImpl_mModel[in_self]),
                     "ImportSource clone: refers to the same resolved model, if it is still alive (documented shared)");
    __CPROVER_assert(ImportSource_doEquals(r, in_self) && ImportSource_doEquals(in_self, r), "ImportSource clone equals the original");
    UNCHANGED_BEFORE_CALL();
    CANARY_HERE();
}
#endif

#ifdef H_COMPONENT
#ifndef MAXN
#define MAXN 2
#endif
ref Component_create__void(void) { return heap_alloc(K_COMPONENT); }
ref Variable_clone(ref self) { return fresh_equal_copy(self, K_VARIABLE); }
/* a cloned reset keeps (clones of) its variables; the component clone then re-targets them */
ref Reset_clone(ref self)
{
    ref r = fresh_equal_copy(self, K_RESET);
    F_ResetImpl_mVariable[r] = F_ResetImpl_mVariable[self] ? fresh_equal_copy(F_ResetImpl_mVariable[self], K_VARIABLE) : 0;
    F_ResetImpl_mTestVariable[r] = F_ResetImpl_mTestVariable[self] ? fresh_equal_copy(F_ResetImpl_mTestVariable[self], K_VARIABLE) : 0;
    return r;
}
/* new objects have no parent: nothing is ever moved out of another container during clone() */
bool Component_removeVariable__ref(ref self, ref v) { __CPROVER_assert(0, "clone(): no entity is moved out of another component"); return 0; }
bool Component_removeReset__ref(ref self, ref r) { __CPROVER_assert(0, "clone(): no entity is moved out of another component"); return 0; }
void removeComponentFromEntity(ref entity, ref component) { __CPROVER_assert(0, "clone(): no component is moved out of another entity"); }
bool V_doAddComponent(ref self, ref component) { return Component_doAddComponent(self, component); }
/* the recursive call cChild->clone(): Component::clone's own contract (induction on depth) */
ref Component_clone__rec(ref self)
{
    ref r = fresh_equal_copy(self, K_COMPONENT);
    F_EntityImpl_mId[r] = F_EntityImpl_mId[self];
    F_NamedEntityImpl_mName[r] = F_NamedEntityImpl_mName[self];
    F_ComponentEntityImpl_mEncapsulationId[r] = F_ComponentEntityImpl_mEncapsulationId[self];
    return r;
}

/* a child list with canonical object ids lo, lo+1, ... (lowered code is invariant under renaming
 * of object ids, and children of one list are distinct objects): only the length is symbolic */
static void child_list(vvec_ref *v, unsigned char kind, ref lo, ref hi)
{
    __CPROVER_assume(v->n <= MAXN);
    for (size_t k = 0; k < MAXN; ++k) {
        v->d[k] = (ref)(lo + k);
        __CPROVER_assume(KIND(lo + k) == kind);
    }
}
static void leaf_component(ref c)
{
    __CPROVER_assume(F_ComponentImpl_mVariables[c].n == 0 && F_ComponentImpl_mResets[c].n == 0 && F_ComponentEntityImpl_mComponents[c].n == 0);
    __CPROVER_assume(F_ImportedEntityImpl_mImportSource[c] == 0);
}

/* objects: 1 = the component, 2..3 its variables, 4..5 its resets, 6..7 its child components,
 * 8 = an import source, 9 = a variable of ANOTHER component; fresh objects start at CFREE      */
#define CFREE 10
void H_NAME(void)
{
    init();
    __next_free = CFREE;
    ref in_self = 1;
    __CPROVER_assume(KIND(in_self) == K_COMPONENT);
    __CPROVER_assume(KIND(8) == K_IMPORTSOURCE && KIND(9) == K_VARIABLE);
    child_list(&F_ComponentImpl_mVariables[in_self], K_VARIABLE, 2, 3);
    child_list(&F_ComponentImpl_mResets[in_self], K_RESET, 4, 5);
    child_list(&F_ComponentEntityImpl_mComponents[in_self], K_COMPONENT, 6, 7);
    __CPROVER_assume(F_ImportedEntityImpl_mImportSource[in_self] == 0 || F_ImportedEntityImpl_mImportSource[in_self] == 8);
    for (ref r = 4; r <= 5; ++r) {
        ref v = F_ResetImpl_mVariable[r], t = F_ResetImpl_mTestVariable[r];
        __CPROVER_assume(v == 0 || v == 2 || v == 3 || v == 9);
        __CPROVER_assume(t == 0 || t == 2 || t == 3 || t == 9);
    }
    leaf_component(6);
    leaf_component(7);
#if VARY == 1 /* variables and resets vary, no child components */
    __CPROVER_assume(F_ComponentEntityImpl_mComponents[in_self].n == 0);
#else /* child components vary, no variables or resets */
    __CPROVER_assume(F_ComponentImpl_mVariables[in_self].n == 0 && F_ComponentImpl_mResets[in_self].n == 0);
#endif
    for (ref k = 1; k < CFREE; ++k)
        __alive[k] = 1;
    size_t ce_nv = F_ComponentImpl_mVariables[in_self].n, ce_nr = F_ComponentImpl_mResets[in_self].n, ce_nc = F_ComponentEntityImpl_mComponents[in_self].n;
    heap_snapshot();
    ref c = Component_clone(in_self);
    __CPROVER_assert(c >= CFREE && KIND(c) == K_COMPONENT, "Component::clone returns a new Component");
    __CPROVER_assert(F_EntityImpl_mId[c] == F_EntityImpl_mId[in_self], "Component clone: same id");
    __CPROVER_assert(F_NamedEntityImpl_mName[c] == F_NamedEntityImpl_mName[in_self], "Component clone: same name");
    __CPROVER_assert(F_ComponentImpl_mMath[c] == F_ComponentImpl_mMath[in_self], "Component clone: same math");
    __CPROVER_assert(F_ComponentEntityImpl_mEncapsulationId[c] == F_ComponentEntityImpl_mEncapsulationId[in_self], "Component clone: same encapsulation id");
    __CPROVER_assert(F_ImportedEntityImpl_mImportReference[c] == F_ImportedEntityImpl_mImportReference[in_self], "Component clone: same import reference");
    __CPROVER_assert(F_ImportedEntityImpl_mImportSource[c] == F_ImportedEntityImpl_mImportSource[in_self], "Component clone: same import source (shared, as documented)");
    __CPROVER_assert(F_ParentedEntityImpl_mParent[c] == 0, "Component clone has no parent");
    __CPROVER_assert(F_ComponentImpl_mVariables[c].n == ce_nv && F_ComponentImpl_mResets[c].n == ce_nr && F_ComponentEntityImpl_mComponents[c].n == ce_nc,
                     "Component clone: same numbers of variables, resets and child components");
    for (size_t k = 0; k < MAXN; ++k) {
        if (k < ce_nv) {
            ref o = F_ComponentImpl_mVariables[in_self].d[k], n = F_ComponentImpl_mVariables[c].d[k];
            __CPROVER_assert(n >= CFREE && spec_E(n, o) && F_ParentedEntityImpl_mParent[n] == c, "Component clone: k-th variable is a fresh equal copy owned by the clone");
        }
        if (k < ce_nr) {
            ref o = F_ComponentImpl_mResets[in_self].d[k], n = F_ComponentImpl_mResets[c].d[k];
            __CPROVER_assert(n >= CFREE && spec_E(n, o) && F_ParentedEntityImpl_mParent[n] == c, "Component clone: k-th reset is a fresh equal copy owned by the clone");
            ref ov = F_ResetImpl_mVariable[o], nv = F_ResetImpl_mVariable[n];
            for (size_t j = 0; j < MAXN; ++j)
                if (j < ce_nv && ov == F_ComponentImpl_mVariables[in_self].d[j])
                    __CPROVER_assert(nv == F_ComponentImpl_mVariables[c].d[j], "Component clone: a reset of one of the component's own variables refers to the clone's own copy of it");
            __CPROVER_assert(nv == 0 || nv >= CFREE, "Component clone: a cloned reset never refers to a variable of the original");
            ref ot = F_ResetImpl_mTestVariable[o], nt = F_ResetImpl_mTestVariable[n];
            for (size_t j = 0; j < MAXN; ++j)
                if (j < ce_nv && ot == F_ComponentImpl_mVariables[in_self].d[j])
                    __CPROVER_assert(nt == F_ComponentImpl_mVariables[c].d[j], "Component clone: a reset's test variable likewise");
            __CPROVER_assert(nt == 0 || nt >= CFREE, "Component clone: a cloned reset never refers to a test variable of the original");
        }
        if (k < ce_nc) {
            ref o = F_ComponentEntityImpl_mComponents[in_self].d[k], n = F_ComponentEntityImpl_mComponents[c].d[k];
            __CPROVER_assert(n >= CFREE && KIND(n) == K_COMPONENT && F_ParentedEntityImpl_mParent[n] == c &&
                                 F_NamedEntityImpl_mName[n] == F_NamedEntityImpl_mName[o] && F_EntityImpl_mId[n] == F_EntityImpl_mId[o] &&
                                 F_ComponentEntityImpl_mEncapsulationId[n] == F_ComponentEntityImpl_mEncapsulationId[o],
                             "Component clone: k-th child component is a fresh copy (name, id, encapsulation id) owned by the clone");
        }
    }
    for (ref k = 1; k < CFREE; ++k)
        __CPROVER_assert(heap_same_at(k), "clone() changes nothing that existed before the call (original and its children untouched)");
    CANARY_HERE();
}
#endif

#ifdef H_UNITS
#ifndef MAXN
#define MAXN 2
#endif
ref Units_create__void(void) { return heap_alloc(K_UNITS); }
/* Units::addUnit(reference, prefix, exponent, multiplier, id): appends one unit child.  Its prefix
 * normalisation (a zero integer prefix is dropped) is idempotent and was already applied when the
 * original's children were added, so the stub appends the attributes as given.               */
void Units_addUnit__s_s_d_d_s(ref self, sid reference, sid prefix, double exponent, double multiplier, sid id)
{
    UnitDefinition ud = UnitDefinition_new();
    ud.mReference = reference;
    ud.mPrefix = prefix;
    ud.mExponent = exponent;
    ud.mMultiplier = multiplier;
    ud.mId = id;
    vvec_UnitDefinition_push_back(&F_UnitsImpl_mUnitDefinitions[self], ud);
}
void h_Units_clone(void)
{
    init();
    ref in_self = 1;
    __CPROVER_assume(KIND(in_self) == K_UNITS);
    __CPROVER_assume(F_UnitsImpl_mUnitDefinitions[in_self].n <= MAXN);
    __CPROVER_assume(F_ImportedEntityImpl_mImportSource[in_self] == 0 || F_ImportedEntityImpl_mImportSource[in_self] == 2);
    /* the frame compares doubles with ==: keep NaN out of every pre-existing object */
    for (ref o = 1; o < FIRST_FREE; ++o)
        for (size_t k = 0; k < VVEC_CAP; ++k) {
            __CPROVER_assume(!isnan(F_UnitsImpl_mUnitDefinitions[o].d[k].mExponent));
            __CPROVER_assume(!isnan(F_UnitsImpl_mUnitDefinitions[o].d[k].mMultiplier));
        }
    size_t ce_n = F_UnitsImpl_mUnitDefinitions[in_self].n;
    heap_snapshot();
    ref u = Units_clone(in_self);
    __CPROVER_assert(u >= FIRST_FREE && KIND(u) == K_UNITS, "Units::clone returns a new Units");
    __CPROVER_assert(F_EntityImpl_mId[u] == F_EntityImpl_mId[in_self], "Units clone: same id");
    __CPROVER_assert(F_NamedEntityImpl_mName[u] == F_NamedEntityImpl_mName[in_self], "Units clone: same name");
    __CPROVER_assert(F_ImportedEntityImpl_mImportReference[u] == F_ImportedEntityImpl_mImportReference[in_self], "Units clone: same import reference");
    __CPROVER_assert(F_ImportedEntityImpl_mImportSource[u] == F_ImportedEntityImpl_mImportSource[in_self], "Units clone: same import source (shared, as documented)");
    __CPROVER_assert(F_UnitsImpl_mUnitDefinitions[u].n == ce_n, "Units clone: same number of unit children");
    for (size_t k = 0; k < MAXN; ++k)
        if (k < ce_n)
            __CPROVER_assert(UnitDefinition_keyeq(F_UnitsImpl_mUnitDefinitions[u].d[k], F_UnitsImpl_mUnitDefinitions[in_self].d[k]),
                             "Units clone: k-th unit child has the same reference, prefix, exponent, multiplier and id");
    NO_PARENT(u);
    UNCHANGED_BEFORE_CALL();
    CANARY_HERE();
}
#endif

#ifdef H_MODEL
#ifndef MAXN
#define MAXN 2
#endif
#define MFREE 8
#define vmap_equiv vmap_vvec_sz_vvec_vvec_sz
ref Model_create__void(void) { return heap_alloc(K_MODEL); }
ref Units_clone(ref self) { return fresh_equal_copy(self, K_UNITS); }
ref Component_clone(ref self) { return fresh_equal_copy(self, K_COMPONENT); }
bool Model_removeUnits__ref(ref self, ref u) { __CPROVER_assert(0, "clone(): no units are moved out of another model"); return 0; }
void removeComponentFromEntity(ref entity, ref component) { __CPROVER_assert(0, "clone(): no component is moved out of another entity"); }
bool V_doAddComponent(ref self, ref component) { return Model_doAddComponent(self, component); }
/* NOT under contract (DESIGN 3/C11): re-linking of units */
void fixComponentUnits(ref model, ref component) {}
/* the re-creation of the variable equivalences is under contract in the equiv unit (specs/C11/equiv.h); here the
 * calls Model::clone makes are recorded: which top-level component was recorded / descended into with which
 * running path, and to which model the map was applied                                                       */
bool g_rec[MAXN], g_gen[MAXN], g_rec_bad;
ref g_orig_child[MAXN], g_applied_to;
size_t g_n_applied;
static void note_visit(bool *flags, ref component, vvec_sz *stack)
{
    bool ok = 0;
    for (size_t k = 0; k < MAXN; ++k)
        if (component == g_orig_child[k] && stack->n == 1 && stack->d[0] == k) {
            flags[k] = 1;
            ok = 1;
        }
    if (!ok)
        g_rec_bad = 1;
    if (g_n_applied != 0)
        g_rec_bad = 1; /* recorded after the map was applied */
}
void recordVariableEquivalences(ref component, vmap_equiv *map, vvec_sz *stack) { note_visit(g_rec, component, stack); }
void generateEquivalenceMap(ref component, vmap_equiv *map, vvec_sz *stack) { note_visit(g_gen, component, stack); }
void applyEquivalenceMapToModel(vmap_equiv map, ref model)
{
    g_applied_to = model;
    g_n_applied = g_n_applied + 1;
}

static void child_list(vvec_ref *v, unsigned char kind, ref lo)
{
    __CPROVER_assume(v->n <= MAXN);
    for (size_t k = 0; k < MAXN; ++k) {
        v->d[k] = (ref)(lo + k);
        __CPROVER_assume(KIND(lo + k) == kind);
    }
}
void h_Model_clone(void)
{
    init();
    __next_free = MFREE;
    ref in_self = 1;
    __CPROVER_assume(KIND(in_self) == K_MODEL);
    child_list(&F_ModelImpl_mUnits[in_self], K_UNITS, 2);
    child_list(&F_ComponentEntityImpl_mComponents[in_self], K_COMPONENT, 4);
    for (ref k = 1; k < MFREE; ++k)
        __alive[k] = 1;
    size_t ce_nu = F_ModelImpl_mUnits[in_self].n, ce_nc = F_ComponentEntityImpl_mComponents[in_self].n;
    for (size_t k = 0; k < MAXN; ++k)
        g_orig_child[k] = k < ce_nc ? F_ComponentEntityImpl_mComponents[in_self].d[k] : (ref)0;
    heap_snapshot();
    ref m = Model_clone(in_self);
    __CPROVER_assert(m >= MFREE && KIND(m) == K_MODEL, "Model::clone returns a new Model");
    for (size_t k = 0; k < MAXN; ++k)
        __CPROVER_assert(k >= ce_nc || (g_rec[k] && g_gen[k]), "Model::clone records the equivalences of every top-level component of the ORIGINAL and of its descendants, under the path [index]");
    __CPROVER_assert(!g_rec_bad, "Model::clone records nothing else, and nothing after the map has been applied");
    __CPROVER_assert(g_n_applied == 1 && g_applied_to == m, "Model::clone applies the recorded equivalences once, to the CLONE");
    __CPROVER_assert(F_EntityImpl_mId[m] == F_EntityImpl_mId[in_self], "Model clone: same id");
    __CPROVER_assert(F_NamedEntityImpl_mName[m] == F_NamedEntityImpl_mName[in_self], "Model clone: same name");
    __CPROVER_assert(F_ComponentEntityImpl_mEncapsulationId[m] == F_ComponentEntityImpl_mEncapsulationId[in_self], "Model clone: same encapsulation id");
    __CPROVER_assert(F_ModelImpl_mUnits[m].n == ce_nu && F_ComponentEntityImpl_mComponents[m].n == ce_nc, "Model clone: same numbers of units and components");
    for (size_t k = 0; k < MAXN; ++k) {
        if (k < ce_nu) {
            ref o = F_ModelImpl_mUnits[in_self].d[k], n = F_ModelImpl_mUnits[m].d[k];
            __CPROVER_assert(n >= MFREE && spec_E(n, o) && F_ParentedEntityImpl_mParent[n] == m, "Model clone: k-th units is a fresh equal copy owned by the clone");
        }
        if (k < ce_nc) {
            ref o = F_ComponentEntityImpl_mComponents[in_self].d[k], n = F_ComponentEntityImpl_mComponents[m].d[k];
            __CPROVER_assert(n >= MFREE && spec_E(n, o) && F_ParentedEntityImpl_mParent[n] == m, "Model clone: k-th component is a fresh equal copy owned by the clone");
        }
    }
    for (ref k = 1; k < MFREE; ++k)
        __CPROVER_assert(heap_same_at(k), "clone() changes nothing that existed before the call (original and its children untouched)");
    CANARY_HERE();
}
#endif
