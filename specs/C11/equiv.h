/* C11, the part of Model::clone() that re-creates the variable equivalences in the clone
 * (utilities.cpp: recordVariableEquivalences, generateEquivalenceMap, indexStackOf, getVariableLocatedAt,
 * makeEquivalence, applyEquivalenceMapToModel).
 *
 * An equivalence of the original is recorded as a pair of index paths (path of the variable -> list of paths
 * of its equivalent variables) and replayed in the clone, whose tree has the same shape (h_Model_clone,
 * h_Component_clone_*).  Obligations, one per function:
 *   indexStackOf / getVariableLocatedAt   locating the path of a variable in its own model yields that variable
 *   recordVariableEquivalences            the entry of variable i of the component lists the paths of ALL its
 *                                         equivalent variables, in order; the running path is restored
 *   generateEquivalenceMap                every child is recorded and descended into under path ++ [index]
 *   applyEquivalenceMapToModel            makeEquivalence is called for EVERY (key, element) of the map
 *   makeEquivalence                       afterwards the two located variables are DIRECTLY equivalent
 * Ghost tables stand for the object tree (the getters are contract stubs; their own obligations are C09's):
 *   g_child[p][i], g_nchild[p]   child components;   g_var[c][i], g_nvar[c]   variables;   g_parent[x]
 *   g_eqv[v][j], g_neq[v]        the equivalent variables of v, in order;   g_eq[a][b]  a, b directly equivalent
 *   g_stk[v]                     the index path of variable v (what indexStackOf returns)                     */
#ifndef C11_EQUIV_H
#define C11_EQUIV_H
#include "kinds.h"
unsigned char __kind[HEAP_N];
bool __alive[HEAP_N];
size_t __addr[HEAP_N];
#define OBJ(x) ((x) != 0 && (x) < HEAP_N)
#ifndef MAXW
#define MAXW 2 /* children / variables / equivalences per object in the bounded harnesses */
#endif
ref g_child[HEAP_N][MAXW], g_var[HEAP_N][MAXW], g_parent[HEAP_N], g_eqv[HEAP_N][MAXW];
size_t g_nchild[HEAP_N], g_nvar[HEAP_N], g_neq[HEAP_N];
bool g_eq[HEAP_N][HEAP_N];

/* equality of two index paths of length <= 3 (no calls in contracts) */
#define STACK_EQ(a, b) ((a).n == (b).n && ((a).n < 1 || (a).d[0] == (b).d[0]) && ((a).n < 2 || (a).d[1] == (b).d[1]) && ((a).n < 3 || (a).d[2] == (b).d[2]))

#define __FC_ComponentEntity_componentCount __CPROVER_requires(OBJ(self)) __CPROVER_ensures(__CPROVER_return_value == g_nchild[self]) __CPROVER_assigns()
#define __FC_ComponentEntity_component__sz __CPROVER_requires(OBJ(self)) __CPROVER_ensures(__CPROVER_return_value == (index < g_nchild[self] ? g_child[self][index] : (ref)0)) __CPROVER_assigns()
#define __FC_Component_variableCount __CPROVER_requires(OBJ(self)) __CPROVER_ensures(__CPROVER_return_value == g_nvar[self]) __CPROVER_assigns()
#define __FC_Component_variable__sz __CPROVER_requires(OBJ(self)) __CPROVER_ensures(__CPROVER_return_value == (index < g_nvar[self] ? g_var[self][index] : (ref)0)) __CPROVER_assigns()
#define __FC_ParentedEntity_parent __CPROVER_requires(OBJ(self)) __CPROVER_ensures(__CPROVER_return_value == g_parent[self]) __CPROVER_assigns()
#define __FC_Variable_equivalentVariableCount __CPROVER_requires(OBJ(self)) __CPROVER_ensures(__CPROVER_return_value == g_neq[self]) __CPROVER_assigns()
#define __FC_Variable_equivalentVariable __CPROVER_requires(OBJ(self)) __CPROVER_ensures(__CPROVER_return_value == (index < g_neq[self] ? g_eqv[self][index] : (ref)0)) __CPROVER_assigns()
/* position of a child in its parent / of a variable in its component (utilities.cpp helpers; C09 keeps the lists duplicate free) */
#define __FC_getComponentIndexInComponentEntity                                                \
    __CPROVER_requires(OBJ(componentParent) && OBJ(component) && g_parent[component] == componentParent) \
    __CPROVER_ensures(__CPROVER_return_value < g_nchild[componentParent] && g_child[componentParent][__CPROVER_return_value] == component) \
    __CPROVER_assigns()
#define __FC_indexOf                                                                           \
    __CPROVER_requires(OBJ(variable) && OBJ(component) && g_parent[variable] == component)      \
    __CPROVER_ensures(__CPROVER_return_value < g_nvar[component] && g_var[component][__CPROVER_return_value] == variable) \
    __CPROVER_assigns()
/* Variable::addEquivalence(v1, v2): afterwards each lists the other (its own obligation: C09 h_addEquivalence) */
#define __FC_Variable_addEquivalence__ref_ref                                                  \
    __CPROVER_requires(OBJ(variable1) && OBJ(variable2))                                       \
    __CPROVER_assigns(g_eq[variable1][variable2], g_eq[variable2][variable1])                  \
    __CPROVER_ensures(g_eq[variable1][variable2] && g_eq[variable2][variable1])

/* ---- makeEquivalence: the property's end of the chain.  Ghosts: the call under proof has paths g_s1, g_s2 in model
 * g_model; the variables located there are g_v1, g_v2.  One contract serves the proof of the function and its use by
 * applyEquivalenceMapToModel: the matching call makes the pair directly equivalent, no call removes that. ---- */
typedef struct
{
    size_t n;
    size_t d[4];
} gstack; /* a ghost index path (the spec header precedes the lowered declarations) */
gstack g_s1, g_s2;
ref g_v1, g_v2, g_model;
#define MAKE_MATCH (STACK_EQ(stack1, g_s1) && STACK_EQ(stack2, g_s2) && model == g_model)
#define __FC_makeEquivalence                                                                   \
    __CPROVER_requires(OBJ(g_v1) && OBJ(g_v2) && OBJ(model))                                   \
    __CPROVER_assigns(__CPROVER_object_whole(g_eq))                                            \
    __CPROVER_ensures(MAKE_MATCH ==> (g_eq[g_v1][g_v2] && g_eq[g_v2][g_v1]))                   \
    __CPROVER_ensures(__CPROVER_old(g_eq[g_v1][g_v2]) ==> g_eq[g_v1][g_v2])
/* getVariableLocatedAt (replaced in h_makeEquivalence): the variable at the path */
#define __FC_getVariableLocatedAt                                                              \
    __CPROVER_requires(OBJ(model))                                                             \
    __CPROVER_ensures(__CPROVER_return_value != 0 && __CPROVER_return_value < HEAP_N)          \
    __CPROVER_ensures((STACK_EQ(stack, g_s1) && model == g_model) ==> __CPROVER_return_value == g_v1) \
    __CPROVER_ensures((!STACK_EQ(stack, g_s1) && STACK_EQ(stack, g_s2) && model == g_model) ==> __CPROVER_return_value == g_v2) \
    __CPROVER_assigns()
/* indexStackOf(variable) (replaced in h_recordVariableEquivalences): the ghost path of the variable */
gstack g_stk[HEAP_N];
#define __FC_indexStackOf__ref                                                                 \
    __CPROVER_requires(OBJ(variable))                                                          \
    __CPROVER_ensures(STACK_EQ(__CPROVER_return_value, g_stk[variable]))                       \
    __CPROVER_assigns()
/* recordVariableEquivalences as used by generateEquivalenceMap: which (component, path) it was called with; the
 * running path is restored (proved in h_recordVariableEquivalences)                                         */
bool g_hit_rec, g_hit_gen;
ref g_c;
#define REC_MATCH (component == g_c && STACK_EQ(*indexStack, g_s1))
#define __FC_recordVariableEquivalences                                                        \
    __CPROVER_requires(OBJ(component))                                                         \
    __CPROVER_assigns(g_hit_rec, *equivalenceMap)                                              \
    __CPROVER_ensures(REC_MATCH ==> g_hit_rec)                                                 \
    __CPROVER_ensures(__CPROVER_old(g_hit_rec) ==> g_hit_rec)
#define GEN_REC_CONTRACT                                                                       \
    __CPROVER_requires(OBJ(component))                                                         \
    __CPROVER_assigns(g_hit_gen, *map)                                                         \
    __CPROVER_ensures((component == g_c && STACK_EQ(*indexStack, g_s1)) ==> g_hit_gen)         \
    __CPROVER_ensures(__CPROVER_old(g_hit_gen) ==> g_hit_gen)
#endif
