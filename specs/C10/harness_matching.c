#ifdef CANARY
#define CANARY_HERE() __CPROVER_assert(0, "CANARY reachable")
#else
#define CANARY_HERE()
#endif

/* virtual equals() of CHILD objects: the inductive hypothesis E */
bool V_doEquals(ref self, ref other)
{
    return spec_E(self, other);
}

#define FIRST_CHILD 3
#ifndef VARY
#define VARY 0
#endif

static void init(void)
{
    havoc_heap();
    __CPROVER_havoc_object(__kind);
    __CPROVER_havoc_object(__cls);
    for (unsigned k = 0; k < HEAP_N; ++k)
        __CPROVER_assume(__kind[k] >= 1 && __kind[k] <= K_MAX);
}

/* a child list: length <= MAXN, entries are child objects of the given kind */
static void child_list(vvec_ref *v, unsigned char kind)
{
    __CPROVER_assume(v->n <= MAXN);
    for (size_t k = 0; k < MAXN; ++k)
        if (k < v->n)
            __CPROVER_assume(v->d[k] >= FIRST_CHILD && v->d[k] < HEAP_N && KIND(v->d[k]) == kind);
}

/* number of entries of class c in a list (children compare by class under E) */
static size_t count_cls(const vvec_ref *v, unsigned c)
{
    size_t r = 0;
    for (size_t k = 0; k < MAXN; ++k)
        if (k < v->n && __cls[v->d[k]] == c)
            ++r;
    return r;
}
/* same multiset of classes: what "equal children, ignoring order" means under E */
static bool same_multiset(const vvec_ref *x, const vvec_ref *y)
{
    if (x->n != y->n)
        return 0;
    for (size_t k = 0; k < MAXN; ++k)
        if (k < x->n && count_cls(x, __cls[x->d[k]]) != count_cls(y, __cls[x->d[k]]))
            return 0;
    return 1;
}

#ifdef H_COMPONENT
void H_NAME(void)
{
    init();
    ref in_a = 1, in_b = 2;
    __CPROVER_assume(KIND(in_a) == K_COMPONENT && KIND(in_b) == K_COMPONENT);
    child_list(&F_ComponentImpl_mVariables[in_a], K_VARIABLE);
    child_list(&F_ComponentImpl_mVariables[in_b], K_VARIABLE);
    child_list(&F_ComponentImpl_mResets[in_a], K_RESET);
    child_list(&F_ComponentImpl_mResets[in_b], K_RESET);
    child_list(&F_ComponentEntityImpl_mComponents[in_a], K_COMPONENT);
    child_list(&F_ComponentEntityImpl_mComponents[in_b], K_COMPONENT);
    __CPROVER_assume(F_ImportedEntityImpl_mImportSource[in_a] < HEAP_N && F_ImportedEntityImpl_mImportSource[in_b] < HEAP_N);
    /* one child kind varies per harness variant (VARY = 1 variables, 2 resets, 3 child components) */
    if (VARY != 1)
        __CPROVER_assume(F_ComponentImpl_mVariables[in_a].n == 0 && F_ComponentImpl_mVariables[in_b].n == 0);
    if (VARY != 2)
        __CPROVER_assume(F_ComponentImpl_mResets[in_a].n == 0 && F_ComponentImpl_mResets[in_b].n == 0);
    if (VARY != 3)
        __CPROVER_assume(F_ComponentEntityImpl_mComponents[in_a].n == 0 && F_ComponentEntityImpl_mComponents[in_b].n == 0);
    size_t ce_nva = F_ComponentImpl_mVariables[in_a].n, ce_nvb = F_ComponentImpl_mVariables[in_b].n;
    size_t ce_nra = F_ComponentImpl_mResets[in_a].n, ce_nrb = F_ComponentImpl_mResets[in_b].n;
    size_t ce_nca = F_ComponentEntityImpl_mComponents[in_a].n, ce_ncb = F_ComponentEntityImpl_mComponents[in_b].n;
    bool ab = Component_doEquals(in_a, in_b);
    bool ba = Component_doEquals(in_b, in_a);
    if (ce_nva != ce_nvb)
        __CPROVER_assert(!ab, "Component: different numbers of variables => not equal");
    if (ce_nra != ce_nrb)
        __CPROVER_assert(!ab, "Component: different numbers of resets => not equal");
    if (ce_nca != ce_ncb)
        __CPROVER_assert(!ab, "Component: different numbers of child components => not equal");
    if (ce_nva == ce_nvb && ce_nra == ce_nrb && ce_nca == ce_ncb) {
        __CPROVER_assert(ab == ba, "Component: equals is symmetric (same numbers of children)");
        bool scalars = F_EntityImpl_mId[in_a] == F_EntityImpl_mId[in_b] && F_NamedEntityImpl_mName[in_a] == F_NamedEntityImpl_mName[in_b] &&
                       F_ComponentEntityImpl_mEncapsulationId[in_a] == F_ComponentEntityImpl_mEncapsulationId[in_b] &&
                       F_ComponentImpl_mMath[in_a] == F_ComponentImpl_mMath[in_b] &&
                       F_ImportedEntityImpl_mImportReference[in_a] == F_ImportedEntityImpl_mImportReference[in_b] &&
                       spec_E_opt(F_ImportedEntityImpl_mImportSource[in_a], F_ImportedEntityImpl_mImportSource[in_b]);
        bool children = same_multiset(&F_ComponentImpl_mVariables[in_a], &F_ComponentImpl_mVariables[in_b]) &&
                        same_multiset(&F_ComponentImpl_mResets[in_a], &F_ComponentImpl_mResets[in_b]) &&
                        same_multiset(&F_ComponentEntityImpl_mComponents[in_a], &F_ComponentEntityImpl_mComponents[in_b]);
        __CPROVER_assert(ab == (scalars && children),
                         "Component: equal exactly when id, name, encapsulation id, math, import and the child multisets agree (order ignored)");
    }
    __CPROVER_assert(Component_doEquals(in_a, in_a), "Component: equals is reflexive");
    CANARY_HERE();
}
#endif

#ifdef H_MODEL
void H_NAME(void)
{
    init();
    ref in_a = 1, in_b = 2;
    __CPROVER_assume(KIND(in_a) == K_MODEL && KIND(in_b) == K_MODEL);
    child_list(&F_ModelImpl_mUnits[in_a], K_UNITS);
    child_list(&F_ModelImpl_mUnits[in_b], K_UNITS);
    child_list(&F_ComponentEntityImpl_mComponents[in_a], K_COMPONENT);
    child_list(&F_ComponentEntityImpl_mComponents[in_b], K_COMPONENT);
    if (VARY != 1)
        __CPROVER_assume(F_ModelImpl_mUnits[in_a].n == 0 && F_ModelImpl_mUnits[in_b].n == 0);
    if (VARY != 3)
        __CPROVER_assume(F_ComponentEntityImpl_mComponents[in_a].n == 0 && F_ComponentEntityImpl_mComponents[in_b].n == 0);
    size_t ce_nua = F_ModelImpl_mUnits[in_a].n, ce_nub = F_ModelImpl_mUnits[in_b].n;
    size_t ce_nca = F_ComponentEntityImpl_mComponents[in_a].n, ce_ncb = F_ComponentEntityImpl_mComponents[in_b].n;
    bool ab = Model_doEquals(in_a, in_b);
    bool ba = Model_doEquals(in_b, in_a);
    if (ce_nua != ce_nub)
        __CPROVER_assert(!ab, "Model: different numbers of units => not equal");
    if (ce_nca != ce_ncb)
        __CPROVER_assert(!ab, "Model: different numbers of components => not equal");
    if (ce_nua == ce_nub && ce_nca == ce_ncb) {
        __CPROVER_assert(ab == ba, "Model: equals is symmetric (same numbers of children)");
        bool scalars = F_EntityImpl_mId[in_a] == F_EntityImpl_mId[in_b] && F_NamedEntityImpl_mName[in_a] == F_NamedEntityImpl_mName[in_b] &&
                       F_ComponentEntityImpl_mEncapsulationId[in_a] == F_ComponentEntityImpl_mEncapsulationId[in_b];
        bool children = same_multiset(&F_ModelImpl_mUnits[in_a], &F_ModelImpl_mUnits[in_b]) &&
                        same_multiset(&F_ComponentEntityImpl_mComponents[in_a], &F_ComponentEntityImpl_mComponents[in_b]);
        __CPROVER_assert(ab == (scalars && children),
                         "Model: equal exactly when id, name, encapsulation id and the units/component multisets agree (order ignored)");
    }
    __CPROVER_assert(Model_doEquals(in_a, in_a), "Model: equals is reflexive");
    CANARY_HERE();
}
#endif

#ifdef H_UNITS
/* unit children are value records compared field by field (exponent/multiplier to within 1 ulp):
 * the claims are made for values that are identical or further apart than that, so the doubles
 * of the two sides are drawn from a small set of well-separated values                       */
static bool ud_same(UnitDefinition x, UnitDefinition y)
{
    return x.mReference == y.mReference && x.mPrefix == y.mPrefix && x.mExponent == y.mExponent &&
           x.mMultiplier == y.mMultiplier && x.mId == y.mId;
}
static size_t count_ud(const vvec_UnitDefinition *v, UnitDefinition u)
{
    size_t r = 0;
    for (size_t k = 0; k < MAXN; ++k)
        if (k < v->n && ud_same(v->d[k], u))
            ++r;
    return r;
}
static void ud_list(vvec_UnitDefinition *v)
{
    __CPROVER_assume(v->n <= MAXN);
    for (size_t k = 0; k < MAXN; ++k)
        if (k < v->n) {
            double e = v->d[k].mExponent, m = v->d[k].mMultiplier;
            __CPROVER_assume(e == 1.0 || e == 2.0 || e == -1.0 || e == 0.5);
            __CPROVER_assume(m == 1.0 || m == 1000.0 || m == 0.001);
        }
}
void h_Units_matching(void)
{
    init();
    ref in_a = 1, in_b = 2;
    __CPROVER_assume(KIND(in_a) == K_UNITS && KIND(in_b) == K_UNITS);
    ud_list(&F_UnitsImpl_mUnitDefinitions[in_a]);
    ud_list(&F_UnitsImpl_mUnitDefinitions[in_b]);
    __CPROVER_assume(F_ImportedEntityImpl_mImportSource[in_a] < HEAP_N && F_ImportedEntityImpl_mImportSource[in_b] < HEAP_N);
    size_t ce_na = F_UnitsImpl_mUnitDefinitions[in_a].n, ce_nb = F_UnitsImpl_mUnitDefinitions[in_b].n;
    bool ab = Units_doEquals(in_a, in_b);
    bool ba = Units_doEquals(in_b, in_a);
    if (ce_na != ce_nb)
        __CPROVER_assert(!ab, "Units: different numbers of unit children => not equal");
    __CPROVER_assert(ab == ba, "Units: equals is symmetric");
    bool scalars = F_EntityImpl_mId[in_a] == F_EntityImpl_mId[in_b] && F_NamedEntityImpl_mName[in_a] == F_NamedEntityImpl_mName[in_b] &&
                   F_ImportedEntityImpl_mImportReference[in_a] == F_ImportedEntityImpl_mImportReference[in_b] &&
                   spec_E_opt(F_ImportedEntityImpl_mImportSource[in_a], F_ImportedEntityImpl_mImportSource[in_b]);
    bool children = ce_na == ce_nb;
    for (size_t k = 0; k < MAXN; ++k)
        if (k < ce_na && count_ud(&F_UnitsImpl_mUnitDefinitions[in_a], F_UnitsImpl_mUnitDefinitions[in_a].d[k]) !=
                             count_ud(&F_UnitsImpl_mUnitDefinitions[in_b], F_UnitsImpl_mUnitDefinitions[in_a].d[k]))
            children = 0;
    __CPROVER_assert(ab == (scalars && children),
                     "Units: equal exactly when id, name, import and the multiset of unit children (reference, prefix, exponent, multiplier, id) agree");
    __CPROVER_assert(Units_doEquals(in_a, in_a), "Units: equals is reflexive");
    CANARY_HERE();
}
#endif

#ifdef H_FP
/* areNearlyEqual over ALL pairs of doubles (loop-free: complete) */
void h_areNearlyEqual(void)
{
    double in_x, in_y;
    bool xy = areNearlyEqual(in_x, in_y);
    __CPROVER_assert(xy == areNearlyEqual(in_y, in_x), "areNearlyEqual is symmetric");
    if (!isnan(in_x))
        __CPROVER_assert(areNearlyEqual(in_x, in_x), "areNearlyEqual is reflexive on non-NaN values");
    if (in_x == in_y)
        __CPROVER_assert(xy, "identical values are nearly equal");
    CANARY_HERE();
}
#endif
