#ifdef CANARY
#define CANARY_HERE() __CPROVER_assert(0, "CANARY reachable")
#else
#define CANARY_HERE()
#endif

/* virtual equals() of CHILD objects: the inductive hypothesis E */
bool V_doEquals(ref self, ref other)
{
    return spec_E(self, other);
}

static void init(void)
{
    havoc_heap();
    __CPROVER_havoc_object(__kind);
    __CPROVER_havoc_object(__cls);
    for (unsigned k = 0; k < HEAP_N; ++k)
        __CPROVER_assume(__kind[k] >= 1 && __kind[k] <= K_MAX);
}

/* child pointers stay inside the heap */
#define CHILD_OK(x) __CPROVER_assume((x) < HEAP_N)

#define RELATIONAL(CLASS, KINDTAG, DOEQ, SENSITIVE, CHILDREN)                                  \
    void h_##CLASS##_relational(void)                                                         \
    {                                                                                         \
        init();                                                                               \
        ref in_a = 1, in_b = 2, in_c = 3;                                                     \
        __CPROVER_assume(KIND(in_a) == KINDTAG);                                              \
        CHILDREN(in_a);                                                                       \
        CHILDREN(in_b);                                                                       \
        CHILDREN(in_c);                                                                       \
        bool ab = DOEQ(in_a, in_b);                                                           \
        __CPROVER_assert(DOEQ(in_a, in_a), #CLASS ": equals is reflexive");                   \
        __CPROVER_assert(!DOEQ(in_a, (ref)0), #CLASS ": equals(nullptr) is false");           \
        if (KIND(in_b) != KINDTAG)                                                            \
            __CPROVER_assert(!ab, #CLASS ": never equal to an object of another class");      \
        else {                                                                                \
            bool ba = DOEQ(in_b, in_a);                                                       \
            __CPROVER_assert(ab == ba, #CLASS ": equals is symmetric");                       \
            if (ab) {                                                                         \
                SENSITIVE(in_a, in_b);                                                        \
            }                                                                                 \
            if (KIND(in_c) == KINDTAG && ab && DOEQ(in_b, in_c))                              \
                __CPROVER_assert(DOEQ(in_a, in_c), #CLASS ": equals is transitive");          \
        }                                                                                     \
        CANARY_HERE();                                                                        \
    }

/* ---- Entity (id only) -------------------------------------------------------------------- */
#define NOCHILD(x)
#define SENS_ENTITY(a, b) __CPROVER_assert(F_EntityImpl_mId[a] == F_EntityImpl_mId[b], "equal => same id")
/* Entity::doEquals is the base layer of every class (it compares ids only) */
void h_Entity_relational(void)
{
    init();
    ref in_a = 1, in_b = 2, in_c = 3;
    bool ab = Entity_doEquals(in_a, in_b);
    __CPROVER_assert(Entity_doEquals(in_a, in_a), "Entity: reflexive");
    __CPROVER_assert(!Entity_doEquals(in_a, (ref)0), "Entity: equals(nullptr) is false");
    __CPROVER_assert(ab == Entity_doEquals(in_b, in_a), "Entity: symmetric");
    if (ab) {
        SENS_ENTITY(in_a, in_b);
    }
    if (ab && Entity_doEquals(in_b, in_c))
        __CPROVER_assert(Entity_doEquals(in_a, in_c), "Entity: transitive");
    CANARY_HERE();
}

#define SENS_NAMED(a, b)                                                                      \
    SENS_ENTITY(a, b);                                                                        \
    __CPROVER_assert(F_NamedEntityImpl_mName[a] == F_NamedEntityImpl_mName[b], "equal => same name")
static bool named_doEquals(ref a, ref b) { return NamedEntity_doEquals(a, b); }
void h_NamedEntity_relational(void)
{
    init();
    ref in_a = 1, in_b = 2, in_c = 3;
    __CPROVER_assume(IS_NamedEntity(in_a));
    bool ab = NamedEntity_doEquals(in_a, in_b);
    __CPROVER_assert(NamedEntity_doEquals(in_a, in_a), "NamedEntity: reflexive");
    __CPROVER_assert(!NamedEntity_doEquals(in_a, (ref)0), "NamedEntity: equals(nullptr) is false");
    if (!IS_NamedEntity(in_b))
        __CPROVER_assert(!ab, "NamedEntity: never equal to an entity without a name");
    else {
        __CPROVER_assert(ab == NamedEntity_doEquals(in_b, in_a), "NamedEntity: symmetric");
        if (ab) {
            SENS_NAMED(in_a, in_b);
        }
        if (IS_NamedEntity(in_c) && ab && NamedEntity_doEquals(in_b, in_c))
            __CPROVER_assert(NamedEntity_doEquals(in_a, in_c), "NamedEntity: transitive");
    }
    CANARY_HERE();
}

/* ---- ImportSource: id, url --------------------------------------------------------------- */
#define SENS_IMPORTSOURCE(a, b)                                                               \
    SENS_ENTITY(a, b);                                                                        \
    __CPROVER_assert(F_ImportSourceImpl_mUrl[a] == F_ImportSourceImpl_mUrl[b], "equal => same url")
RELATIONAL(ImportSource, K_IMPORTSOURCE, ImportSource_doEquals, SENS_IMPORTSOURCE, NOCHILD)

/* ---- Variable: id, name, initial value, interface type, units (via E) --------------------- */
#define CHILD_VARIABLE(x) CHILD_OK(F_VariableImpl_mUnits[x])
#define SENS_VARIABLE(a, b)                                                                   \
    SENS_NAMED(a, b);                                                                         \
    __CPROVER_assert(F_VariableImpl_mInitialValue[a] == F_VariableImpl_mInitialValue[b], "equal => same initial value"); \
    __CPROVER_assert(F_VariableImpl_mInterfaceType[a] == F_VariableImpl_mInterfaceType[b], "equal => same interface type"); \
    __CPROVER_assert(spec_E_opt(F_VariableImpl_mUnits[a], F_VariableImpl_mUnits[b]), "equal => equal units (or both without units)")
RELATIONAL(Variable, K_VARIABLE, Variable_doEquals, SENS_VARIABLE, CHILD_VARIABLE)

/* ---- Reset: id, order, both values and their ids, variable and test variable (via E) ------ */
#define CHILD_RESET(x)                                                                        \
    CHILD_OK(F_ResetImpl_mVariable[x]);                                                       \
    CHILD_OK(F_ResetImpl_mTestVariable[x])
#define SENS_RESET(a, b)                                                                      \
    SENS_ENTITY(a, b);                                                                        \
    __CPROVER_assert(F_ResetImpl_mOrder[a] == F_ResetImpl_mOrder[b], "equal => same order");  \
    __CPROVER_assert(F_ResetImpl_mResetValue[a] == F_ResetImpl_mResetValue[b], "equal => same reset value"); \
    __CPROVER_assert(F_ResetImpl_mResetValueId[a] == F_ResetImpl_mResetValueId[b], "equal => same reset value id"); \
    __CPROVER_assert(F_ResetImpl_mTestValue[a] == F_ResetImpl_mTestValue[b], "equal => same test value"); \
    __CPROVER_assert(F_ResetImpl_mTestValueId[a] == F_ResetImpl_mTestValueId[b], "equal => same test value id"); \
    __CPROVER_assert(spec_E_opt(F_ResetImpl_mVariable[a], F_ResetImpl_mVariable[b]), "equal => equal variable (or both without)"); \
    __CPROVER_assert(spec_E_opt(F_ResetImpl_mTestVariable[a], F_ResetImpl_mTestVariable[b]), "equal => equal test variable (or both without)")
RELATIONAL(Reset, K_RESET, Reset_doEquals, SENS_RESET, CHILD_RESET)

/* ---- ImportedEntity mix-in: import reference, import source (via E) ----------------------- */
void h_ImportedEntity_relational(void)
{
    init();
    ref in_a = 1, in_b = 2, in_c = 3;
    __CPROVER_assume(IS_ImportedEntity(in_a) && IS_ImportedEntity(in_b) && IS_ImportedEntity(in_c));
    CHILD_OK(F_ImportedEntityImpl_mImportSource[in_a]);
    CHILD_OK(F_ImportedEntityImpl_mImportSource[in_b]);
    CHILD_OK(F_ImportedEntityImpl_mImportSource[in_c]);
    bool ab = ImportedEntity_doEquals(in_a, in_b);
    __CPROVER_assert(ImportedEntity_doEquals(in_a, in_a), "ImportedEntity: reflexive");
    __CPROVER_assert(ab == ImportedEntity_doEquals(in_b, in_a), "ImportedEntity: symmetric");
    if (ab) {
        __CPROVER_assert(F_ImportedEntityImpl_mImportReference[in_a] == F_ImportedEntityImpl_mImportReference[in_b], "equal => same import reference");
        __CPROVER_assert(spec_E_opt(F_ImportedEntityImpl_mImportSource[in_a], F_ImportedEntityImpl_mImportSource[in_b]),
                         "equal => equal import source (or neither is an import)");
    }
    if (ab && ImportedEntity_doEquals(in_b, in_c))
        __CPROVER_assert(ImportedEntity_doEquals(in_a, in_c), "ImportedEntity: transitive");
    CANARY_HERE();
}
