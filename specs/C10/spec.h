/* C10 - equals() is an equivalence relation that sees every attribute it covers.
 *
 * Child objects (a variable's units, a reset's variables, an import source, children of
 * containers) are compared through the virtual equals(): the inductive hypothesis.  It is the
 * stub E below: an ARBITRARY equivalence relation (every equivalence is the kernel of a
 * function: here __cls), false on null and across dynamic types.                            */
#ifndef C10_SPEC_H
#define C10_SPEC_H
#include "kinds.h"

unsigned char __kind[HEAP_N];
unsigned __cls[HEAP_N];
bool __alive[HEAP_N];
size_t __addr[HEAP_N];
#ifdef MODEL_POINTWISE
size_t G, H;
#endif

static inline bool spec_E(ref a, ref b)
{
    return a != 0 && b != 0 && KIND(a) == KIND(b) && __cls[a] == __cls[b];
}
/* "equal or both absent" for optional children */
static inline bool spec_E_opt(ref a, ref b)
{
    return (a == 0 && b == 0) || spec_E(a, b);
}
#endif
