/* C16 - contracts for the numeric-text recognisers and converters of src/utilities.cpp.
 *
 * The postconditions are transcribed from the property statement, NOT from the code:
 *   real    = '-'? (digit | '.')*  with >= 1 digit and <= 1 '.',  then optionally
 *             ('e' | 'E') integer
 *   integer = ('+' | '-')? digit+
 * written as one-pass recognisers (spec_*).  `N` is the string-length bound of this run.    */
#ifndef C16_SPEC_H
#define C16_SPEC_H

#ifndef N
#define N 6
#endif

static inline bool spec_digit(char c) { return c >= '0' && c <= '9'; }

/* integer over s[from, to) */
static inline bool spec_int_range(const vstr *s, size_t from, size_t to)
{
    size_t i = from;
    if (i < to && (s->d[i] == '+' || s->d[i] == '-'))
        ++i;
    if (i >= to)
        return 0;
    for (; i < to; ++i)
        if (!spec_digit(s->d[i]))
            return 0;
    return 1;
}
static inline bool spec_nonneg_int(vstr s)
{
    if (s.n == 0)
        return 0;
    for (size_t i = 0; i < s.n; ++i)
        if (!spec_digit(s.d[i]))
            return 0;
    return 1;
}
static inline bool spec_int(vstr s) { return spec_int_range(&s, 0, s.n); }

/* basic real over s[0, to) */
static inline bool spec_basic_range(const vstr *s, size_t to)
{
    size_t i = 0, digits = 0, dots = 0;
    if (i < to && s->d[i] == '-')
        ++i;
    for (; i < to; ++i) {
        if (spec_digit(s->d[i]))
            ++digits;
        else if (s->d[i] == '.')
            ++dots;
        else
            return 0;
    }
    return digits >= 1 && dots <= 1;
}
static inline bool spec_basic(vstr s) { return spec_basic_range(&s, s.n); }

static inline bool spec_real(vstr s)
{
    size_t p = s.n;
    for (size_t i = 0; i < s.n; ++i)
        if (s.d[i] == 'e' || s.d[i] == 'E') {
            p = i;
            break;
        }
    if (p == s.n)
        return spec_basic_range(&s, s.n);
    return spec_basic_range(&s, p) && spec_int_range(&s, p + 1, s.n);
}

/* SI prefix table written from the SI brochure (independent of the source's table) */
static inline bool spec_prefix(vstr s, int *v)
{
    static const struct
    {
        const char *name;
        int e;
    } si[] = {{"yotta", 24}, {"zetta", 21}, {"exa", 18}, {"peta", 15}, {"tera", 12}, {"giga", 9}, {"mega", 6},
              {"kilo", 3}, {"hecto", 2}, {"deca", 1}, {"deci", -1}, {"centi", -2}, {"milli", -3}, {"micro", -6},
              {"nano", -9}, {"pico", -12}, {"femto", -15}, {"atto", -18}, {"zepto", -21}, {"yocto", -24}};
    for (unsigned k = 0; k < sizeof(si) / sizeof(si[0]); ++k) {
        size_t len = 0;
        while (si[k].name[len])
            ++len;
        if (len != s.n)
            continue;
        bool eq = 1;
        for (size_t j = 0; j < len; ++j)
            if (si[k].name[j] != s.d[j])
                eq = 0;
        if (eq) {
            *v = si[k].e;
            return 1;
        }
    }
    return 0;
}

/* ---- function contracts (spliced after the lowered declarators) -------------------------- */
#define __FC_isEuropeanNumericCharacter                                                        \
    __CPROVER_ensures(__CPROVER_return_value == (c >= '0' && c <= '9'))                        \
    __CPROVER_assigns()

#define __FC_isNonNegativeCellMLInteger                                                        \
    __CPROVER_requires(candidate.n <= N)                                                       \
    __CPROVER_ensures(__CPROVER_return_value == spec_nonneg_int(candidate))                    \
    __CPROVER_assigns()

#define __FC_isCellMLInteger                                                                   \
    __CPROVER_requires(candidate.n <= N)                                                       \
    __CPROVER_ensures(__CPROVER_return_value == spec_int(candidate))                           \
    __CPROVER_assigns()

#define __FC_isCellMLExponent                                                                  \
    __CPROVER_requires(candidate.n <= N)                                                       \
    __CPROVER_ensures(__CPROVER_return_value == spec_int(candidate))                           \
    __CPROVER_assigns()

#define __FC_isCellMLBasicReal                                                                 \
    __CPROVER_requires(candidate.n <= N)                                                       \
    __CPROVER_ensures(__CPROVER_return_value == spec_basic(candidate))                         \
    __CPROVER_assigns()

#define __FC_isCellMLReal                                                                      \
    __CPROVER_requires(candidate.n <= N)                                                       \
    __CPROVER_ensures(__CPROVER_return_value == spec_real(candidate))                          \
    __CPROVER_assigns()


/* value of an integer text (spec side; independent of the std::stoi model) */
static inline bool spec_int_value(vstr s, long long *out)
{
    size_t i = 0;
    bool neg = 0;
    long long v = 0;
    bool big = 0;
    if (i < s.n && (s.d[i] == '+' || s.d[i] == '-')) {
        neg = s.d[i] == '-';
        ++i;
    }
    for (; i < s.n; ++i) {
        if (v > 100000000000LL)
            big = 1;
        else
            v = v * 10 + (s.d[i] - '0');
    }
    *out = neg ? -v : v;
    return !big && *out >= -2147483648LL && *out <= 2147483647LL;
}

/* stringToDouble: callers must hand it text with a numeric prefix; then nothing escapes */
#define __FC_stringToDouble                                                                    \
    __CPROVER_requires(in.n <= N && __strtod_has_prefix(in))                                   \
    __CPROVER_requires(__CPROVER_is_fresh(out, sizeof(double)))                                \
    __CPROVER_requires(__exc == 0)                                                             \
    __CPROVER_ensures(__exc == 0)                                                              \
    __CPROVER_assigns(*out, __exc)

#define __FC_convertToDouble                                                                   \
    __CPROVER_requires(in.n <= N && __CPROVER_is_fresh(out, sizeof(double)) && __exc == 0)     \
    __CPROVER_ensures(__exc == 0)                                                              \
    __CPROVER_ensures(__CPROVER_return_value ==> spec_real(in))                                \
    __CPROVER_assigns(*out, __exc)

#define __FC_canConvertToBasicDouble                                                           \
    __CPROVER_requires(in.n <= N && __exc == 0)                                                \
    __CPROVER_ensures(__exc == 0)                                                              \
    __CPROVER_ensures(__CPROVER_return_value ==> spec_basic(in))                               \
    __CPROVER_assigns(__exc)

#define __FC_convertToInt                                                                      \
    __CPROVER_requires(in.n <= N && __CPROVER_is_fresh(out, sizeof(int)) && __exc == 0)        \
    __CPROVER_ensures(__exc == 0)                                                              \
    __CPROVER_ensures(__CPROVER_return_value == (spec_int(in) && spec_fits_int(in)))           \
    __CPROVER_ensures(__CPROVER_return_value ==> *out == spec_value_int(in))                   \
    __CPROVER_assigns(*out, __exc)

static inline bool spec_fits_int(vstr s)
{
    long long v;
    return spec_int_value(s, &v);
}
static inline int spec_value_int(vstr s)
{
    long long v;
    spec_int_value(s, &v);
    return (int)v;
}
static inline bool spec_is_prefix(vstr s)
{
    int v;
    return spec_prefix(s, &v);
}
static inline int spec_prefix_value(vstr s)
{
    int v = 0;
    spec_prefix(s, &v);
    return v;
}

#define __FC_isStandardPrefixName                                                              \
    __CPROVER_requires(name.n <= N)                                                            \
    __CPROVER_ensures(__CPROVER_return_value == spec_is_prefix(name))                          \
    __CPROVER_assigns()

/* convertPrefixToInt: SI name -> its exponent; "" -> 0; integer text -> its value; anything
 * else (or out of int range) -> *ok == false.  ok may be null.                               */
#define __FC_convertPrefixToInt                                                                \
    __CPROVER_requires(in.n <= N && __exc == 0)                                                \
    __CPROVER_requires(ok == NULL || __CPROVER_is_fresh(ok, sizeof(bool)))                     \
    __CPROVER_ensures(__exc == 0)                                                              \
    __CPROVER_ensures(spec_is_prefix(in) ==> (__CPROVER_return_value == spec_prefix_value(in) && (ok == NULL || *ok))) \
    __CPROVER_ensures((!spec_is_prefix(in) && in.n == 0) ==> (__CPROVER_return_value == 0 && (ok == NULL || *ok))) \
    __CPROVER_ensures((!spec_is_prefix(in) && in.n != 0 && spec_int(in) && spec_fits_int(in)) ==>                \
                      (__CPROVER_return_value == spec_value_int(in) && (ok == NULL || *ok)))   \
    __CPROVER_ensures((!spec_is_prefix(in) && in.n != 0 && !(spec_int(in) && spec_fits_int(in))) ==> (ok == NULL || !*ok)) \
    __CPROVER_assigns(__exc; ok != NULL: *ok)


/* Units::addUnit(reference, prefix, ...): a prefix that is integer text with value 0 is dropped;
 * EVERY other text - in particular text that is not an integer - is stored as given, so that the
 * validator can report it ("rejected text is reported as an issue"); nothing escapes.          */
#define SPEC_PREFIX_DROPPED(p) (spec_int(p) && spec_fits_int(p) && spec_value_int(p) == 0)

#endif
