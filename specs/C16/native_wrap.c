/* Native entry points into the lowered C16 unit and into the spec functions (for the
 * lowering-conformance run and for counterexample replay).                                  */
jmp_buf __model_jmp;
const char *__model_fault_msg;
int __model_bound_hit;

static vstr mk(const char *s, size_t n)
{
    vstr v;
    v.n = n;
    memcpy(v.d, s, n);
    return v;
}

/* returns 0/1 result, *threw: 0 none, 1 model fault (C++ would throw / UB), 2 capacity */
int c16_lowered(const char *fn, const char *s, size_t n, int *threw, double *dout, int *iout)
{
    vstr v = mk(s, n);
    int r = -1;
    *threw = 0;
    __exc = 0;
    int j = setjmp(__model_jmp);
    if (j != 0) {
        *threw = j;
        return -1;
    }
    if (!strcmp(fn, "isNonNegativeCellMLInteger")) r = isNonNegativeCellMLInteger(v);
    else if (!strcmp(fn, "isCellMLInteger")) r = isCellMLInteger(v);
    else if (!strcmp(fn, "isCellMLExponent")) r = isCellMLExponent(v);
    else if (!strcmp(fn, "isCellMLBasicReal")) r = isCellMLBasicReal(v);
    else if (!strcmp(fn, "isCellMLReal")) r = isCellMLReal(v);
    else if (!strcmp(fn, "canConvertToBasicDouble")) r = canConvertToBasicDouble(v);
    else if (!strcmp(fn, "isStandardPrefixName")) r = isStandardPrefixName(v);
    else if (!strcmp(fn, "convertToDouble")) r = convertToDouble(v, dout);
    else if (!strcmp(fn, "convertToInt")) r = convertToInt(v, iout);
    else if (!strcmp(fn, "convertPrefixToInt")) { bool ok = 0; *iout = convertPrefixToInt(v, &ok); r = ok; }
    else if (!strcmp(fn, "isEuropeanNumericCharacter")) r = isEuropeanNumericCharacter(n ? s[0] : 0);
    return r;
}

/* spec side: what the property statement says the answer is; -1 = the spec leaves it open */
int c16_spec(const char *fn, const char *s, size_t n, int *ival)
{
    vstr v = mk(s, n);
    if (!strcmp(fn, "isNonNegativeCellMLInteger")) return spec_nonneg_int(v);
    if (!strcmp(fn, "isCellMLInteger") || !strcmp(fn, "isCellMLExponent")) return spec_int(v);
    if (!strcmp(fn, "isCellMLBasicReal")) return spec_basic(v);
    if (!strcmp(fn, "isCellMLReal")) return spec_real(v);
    if (!strcmp(fn, "isStandardPrefixName")) return spec_is_prefix(v);
    if (!strcmp(fn, "isEuropeanNumericCharacter")) return n ? spec_digit(s[0]) : 0;
    if (!strcmp(fn, "convertToInt")) { *ival = spec_value_int(v); return spec_int(v) && spec_fits_int(v); }
    if (!strcmp(fn, "convertToDouble")) return spec_real(v) ? -1 : 0;       /* true or out of range */
    if (!strcmp(fn, "canConvertToBasicDouble")) return spec_basic(v) ? -1 : 0;
    if (!strcmp(fn, "convertPrefixToInt")) {
        if (spec_is_prefix(v)) { *ival = spec_prefix_value(v); return 1; }
        if (n == 0) { *ival = 0; return 1; }
        if (spec_int(v) && spec_fits_int(v)) { *ival = spec_value_int(v); return 1; }
        return 0;
    }
    return -2;
}
