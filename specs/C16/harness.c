/* C16 harnesses: each calls one lowered function with unconstrained inputs (named in_* so the
 * engine can read them back from a counterexample); the function's contract is enforced by
 * goto-instrument --dfcc, callees named in the check script are replaced by their contracts. */
#ifdef CANARY
#define CANARY_HERE() __CPROVER_assert(0, "CANARY reachable")
#else
#define CANARY_HERE()
#endif

#ifndef UNIT_UNITS
void h_isEuropeanNumericCharacter(void)
{
    char in_c;
    isEuropeanNumericCharacter(in_c);
    CANARY_HERE();
}
#define H_STR(fn)                                                                             \
    void h_##fn(void)                                                                         \
    {                                                                                         \
        vstr in_s;                                                                            \
        fn(in_s);                                                                             \
        CANARY_HERE();                                                                        \
    }
H_STR(isNonNegativeCellMLInteger)
H_STR(isCellMLInteger)
H_STR(isCellMLExponent)
H_STR(isCellMLBasicReal)
H_STR(isCellMLReal)
H_STR(canConvertToBasicDouble)
H_STR(isStandardPrefixName)

void h_stringToDouble(void)
{
    vstr in_s;
    double out;
    stringToDouble(in_s, &out);
    CANARY_HERE();
}
void h_convertToDouble(void)
{
    vstr in_s;
    double out;
    convertToDouble(in_s, &out);
    CANARY_HERE();
}
void h_convertToInt(void)
{
    vstr in_s;
    int out;
    convertToInt(in_s, &out);
    CANARY_HERE();
}
void h_convertPrefixToInt(void)
{
    vstr in_s;
    bool okv;
    bool in_ok_null;
    convertPrefixToInt(in_s, in_ok_null ? NULL : &okv);
    CANARY_HERE();
}

#endif
#ifdef UNIT_UNITS
void h_addUnit_prefix(void)
{
    vstr in_s, ref_, id_;
    double e, m;
    ref self = 1;
    __CPROVER_assume(in_s.n <= N);
    ref_.n = 0;
    id_.n = 0;
    F_UnitsImpl_mUnitDefinitions[self].n = 0;
    __exc = 0;
    Units_addUnit__s_s_d_d_s(self, ref_, in_s, e, m, id_);
    __CPROVER_assert(__exc == 0, "Units::addUnit: no exception escapes whatever the prefix text is");
    __CPROVER_assert(F_UnitsImpl_mUnitDefinitions[self].n == 1, "Units::addUnit appends one unit child");
    vstr stored = F_UnitsImpl_mUnitDefinitions[self].d[0].mPrefix;
    if (SPEC_PREFIX_DROPPED(in_s))
        __CPROVER_assert(stored.n == 0, "Units::addUnit: an integer prefix of value 0 is dropped");
    else
        __CPROVER_assert(vstr_eq(stored, in_s), "Units::addUnit: any other prefix text (in particular text that is not an integer) is kept as given, so it can be reported");
    CANARY_HERE();
}
#endif
