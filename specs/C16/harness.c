/* C16 harnesses: each calls one lowered function with unconstrained inputs (named in_* so the
 * engine can read them back from a counterexample); the function's contract is enforced by
 * goto-instrument --dfcc, callees named in the check script are replaced by their contracts. */
#ifdef CANARY
#define CANARY_HERE() __CPROVER_assert(0, "CANARY reachable")
#else
#define CANARY_HERE()
#endif

void h_isEuropeanNumericCharacter(void)
{
    char in_c;
    isEuropeanNumericCharacter(in_c);
    CANARY_HERE();
}
#define H_STR(fn)                                                                             \
    void h_##fn(void)                                                                         \
    {                                                                                         \
        vstr in_s;                                                                            \
        fn(in_s);                                                                             \
        CANARY_HERE();                                                                        \
    }
H_STR(isNonNegativeCellMLInteger)
H_STR(isCellMLInteger)
H_STR(isCellMLExponent)
H_STR(isCellMLBasicReal)
H_STR(isCellMLReal)
H_STR(canConvertToBasicDouble)
H_STR(isStandardPrefixName)

void h_stringToDouble(void)
{
    vstr in_s;
    double out;
    stringToDouble(in_s, &out);
    CANARY_HERE();
}
void h_convertToDouble(void)
{
    vstr in_s;
    double out;
    convertToDouble(in_s, &out);
    CANARY_HERE();
}
void h_convertToInt(void)
{
    vstr in_s;
    int out;
    convertToInt(in_s, &out);
    CANARY_HERE();
}
void h_convertPrefixToInt(void)
{
    vstr in_s;
    bool okv;
    bool in_ok_null;
    convertPrefixToInt(in_s, in_ok_null ? NULL : &okv);
    CANARY_HERE();
}
