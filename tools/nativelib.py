"""Builds a static library of the *real* libCellML from /repo's current working tree (guard on),
used by the native replay / lowering-conformance drivers.  Cached by content hash of /repo/src
under .cache/lib-<hash>; at most two are kept."""
import os
import sys
from concurrent.futures import ThreadPoolExecutor

from common import CACHE, GUARD, SRC, XML2_LIBDIR, Undecided, include_flags, log, prune_cache, run, tree_hash

CXXFLAGS = ["-std=c++17", "-O1", "-g", "-fPIC", "-D" + GUARD, "-DLIBCELLML_STATIC_DEFINE", "-w"]


def lib_dir(asan=False):
    return os.path.join(CACHE, "lib%s-%s" % ("asan" if asan else "", tree_hash()))


def build(asan=False):
    d = lib_dir(asan)
    lib = os.path.join(d, "libcellml_verif.a")
    if os.path.exists(lib):
        os.utime(d)
        return lib
    os.makedirs(d, exist_ok=True)
    srcs = sorted(f for f in os.listdir(SRC) if f.endswith(".cpp"))
    # debug.cpp is only part of the optional debug-utilities library
    srcs = [s for s in srcs if s != "debug.cpp"]
    flags = CXXFLAGS + (["-fsanitize=address,undefined", "-fno-omit-frame-pointer"] if asan else []) + include_flags()
    cc = ["ccache", "g++"] if os.path.exists("/usr/bin/ccache") else ["g++"]

    def one(s):
        o = os.path.join(d, s[:-4] + ".o")
        rc, out, err, secs = run(cc + flags + ["-c", os.path.join(SRC, s), "-o", o], timeout=900)
        return s, rc, err, o

    objs = []
    with ThreadPoolExecutor(max_workers=int(os.environ.get("VERIF_JOBS", "16"))) as ex:
        for s, rc, err, o in ex.map(one, srcs):
            if rc != 0:
                raise Undecided("native build: %s does not compile with the guard on:\n%s" % (s, err[-3000:]))
            objs.append(o)
    rc, out, err, _ = run(["ar", "rcs", lib] + objs, timeout=120)
    if rc != 0:
        raise Undecided("native build: ar failed: " + err)
    for o in objs:
        os.remove(o)
    prune_cache("lib-", 2)
    prune_cache("libasan-", 1)
    return lib


def link_flags(asan=False):
    return [build(asan), "-L" + XML2_LIBDIR, "-Wl,-rpath," + XML2_LIBDIR, "-lxml2", "-lz", "-lm", "-ldl"] + (
        ["-fsanitize=address,undefined"] if asan else [])


def compile_driver(src, out, extra=(), asan=False, objs=()):
    flags = CXXFLAGS + (["-fsanitize=address,undefined", "-fno-omit-frame-pointer"] if asan else []) + include_flags()
    # drivers reach into the implementation classes of the real code (private pimpl members)
    flags = flags + ["-fno-access-control"]
    rc, o, err, secs = run(["g++"] + flags + list(extra) + [src] + list(objs) + link_flags(asan) + ["-o", out], timeout=900)
    if rc != 0:
        raise Undecided("native build: driver %s does not build:\n%s" % (src, err[-4000:]))
    return out


if __name__ == "__main__":
    import time
    t = time.time()
    print(build("--asan" in sys.argv), "%.1fs" % (time.time() - t))
