#!/usr/bin/env python3
"""Builds seeded/<id>/meta.json and seeded/RESULTS.md from the agents' notes, the independent
confirmation (verify.txt) and the check run (check_result.txt)."""
import json
import os
import re

S = os.path.join(os.path.dirname(os.path.dirname(os.path.abspath(__file__))), "seeded")
rows, rrows = [], []
for d in sorted(os.listdir(S)):
    p = os.path.join(S, d)
    if not os.path.isdir(p):
        continue
    am = {}
    try:
        am = json.load(open(os.path.join(p, "agent_meta.json")))
    except (OSError, ValueError):
        pass
    chk = open(os.path.join(p, "check_result.txt")).read() if os.path.exists(os.path.join(p, "check_result.txt")) else ""
    if d.startswith("R"):
        # behaviour-preserving refactoring: every check that was run, its exit code and violation count
        runs = re.findall(r"check=(\S+) exit=(\d+) seconds=(\d+) violations=(\d+)", chk)
        sel = re.search(r"files: (.*) -> checks:(.*)", chk)
        meta = {"kind": "behaviour-preserving refactoring", "files_changed": am.get("files_changed", (sel.group(1).split() if sel else [])),
                "what": am.get("what_changed") or am.get("description") or am.get("refactoring") or "",
                "written_by": "independent sub-agent given only a scratch worktree and the list of files to touch",
                "suite_with_change": am.get("tests") or am.get("ran") or "",
                "checks_run": [{"check": c, "exit": int(e), "seconds": int(sec), "violation_lines": int(v)} for c, e, sec, v in runs],
                "false_alarm": any(int(v) > 0 for _c, _e, _s, v in runs)}
        json.dump(meta, open(os.path.join(p, "meta.json"), "w"), indent=1)
        rrows.append((d, meta))
        continue
    ver = open(os.path.join(p, "verify.txt")).read() if os.path.exists(os.path.join(p, "verify.txt")) else ""
    confirmed = ("patch_applies=1" in ver and "builds=1" in ver and "demo_on_clean_exit=0" in ver
                 and re.search(r"demo_on_changed_exit=[1-9]", ver) is not None)
    fails = re.search(r"failing_cases=(.*)", ver)
    m = re.search(r"check=(\S+) exit=(\d+) seconds=(\d+)", chk)
    viol = [l for l in chk.split("\n") if l.startswith("VIOLATION")]
    detected = bool(m and m.group(2) == "1" and viol)
    first = ""
    for l in chk.split("\n"):
        if l.startswith("   ") or l.startswith("UNDECIDED"):
            first = l.strip()[:260]
            break
    meta = {
        "property": d.split("_")[0],
        "round": 4 if d in ("C15_m5", "C16_m3", "C10_m3", "C19_m4", "C11_m6", "C13_m7") else 3 if d in ("C13_m5", "C13_m6", "C15_m3", "C15_m4", "C18_m3", "C18_m4", "C11_m5") else
                 (1 if int(re.sub(r"\D", "", d.split("_m")[1])) <= {"C09": 3, "C19": 3}.get(d.split("_")[0], 2) else 2),
        "what_it_breaks": am.get("what_it_breaks", ""),
        "needs_to_manifest": am.get("needs_to_manifest", ""),
        "files_changed": am.get("files_changed", []),
        "written_by": "independent sub-agent given only the property text and a scratch worktree",
        "confirmed_by_me": {
            "how": "tools/seeded_verify.sh in a scratch worktree of /repo HEAD outside /repo and /verif: git apply, rebuild, ctest, "
                   "demonstration built against the clean and the changed library",
            "patch_applies_builds_demo_flips": confirmed,
            "failing_test_cases_with_change": fails.group(1).replace("[  FAILED  ]", "").split() if fails else None,
            "note": am.get("note_rebased", "C09_m1 and C09_m2 were rebased by hand onto the repaired tree (same semantic change)" if d in ("C09_m1", "C09_m2") else ""),
        },
        "check_run": {"cmd": "git -C /repo apply patch.diff && ./check %s quick; git -C /repo checkout -- ." % d.split("_")[0],
                      "exit": int(m.group(2)) if m else None, "seconds": int(m.group(3)) if m else None,
                      "violation_lines": len(viol), "first_reported": first, "detected": detected},
    }
    json.dump(meta, open(os.path.join(p, "meta.json"), "w"), indent=1)
    rows.append((d, meta))
NOTES = {
    "C18_m3": "a cut-off of the search once 64 variables have been tested: the search contract is proved over at most 5 variables (bounded width), where the cut-off "
              "cannot trigger, and the native networks have at most 7 - outside the stated bound of the check.",
    "C13_m6": "the annotator's own id index (AnnotatorImpl::listIdsAndItems) skips the unit children of imported units: the index build is abstracted to the single effect "
              "'list rebuilt' in the effect slices (data dropped) and is not under a data contract; only the printer-side collection (listIds/listComponentIds) is.",
    "C13_m1": "neutralised by fix f2fd4e9 (written against the tree before it): with the repair in place its demonstration passes, i.e. the property holds with this change applied. "
              "The check answers exit 2 (the exactness flag over-approximates and the native fuzz reproduces nothing) - not a violation, not a clean pass.",
}
with open(os.path.join(S, "RESULTS.md"), "w") as f:
    f.write("# Seeded changes: which check catches which\n\n"
            "Regenerated by `tools/seeded_report.py` from `seeded/*/verify.txt` and `seeded/*/check_result.txt`.\n\n"
            "| change | round | confirmed (applies, suite unchanged, demo flips) | check exit | detected | first reported obligation / reason |\n|---|---|---|---|---|---|\n")
    for d, m in rows:
        c = m["check_run"]
        f.write("| %s | %d | %s | %s | %s | %s |\n" % (d, m["round"], "yes" if m["confirmed_by_me"]["patch_applies_builds_demo_flips"] else "see meta.json",
                                                     c["exit"], "**yes**" if c["detected"] else "no", (c["first_reported"] or "").replace("|", "/")))
    nd = [d for d, m in rows if not m["check_run"]["detected"]]
    f.write("\nDetected: %d of %d.  Not detected, and why:\n" % (len(rows) - len(nd), len(rows)))
    for d in nd:
        f.write("* %s: %s\n" % (d, NOTES.get(d, "see seeded/%s/check_result.txt" % d)))
    f.write("\n# Behaviour-preserving refactorings: no check may raise an alarm\n\n"
            "`tools/refactor_eval.sh` applies each patch to a scratch worktree and runs the checks whose translation units it touches (and C12, which "
            "reads the whole library); `ALL=1` runs every check on every patch (done once, see DESIGN 5).\n\n"
            "| refactoring | files | checks run (exit code) | VIOLATION lines |\n|---|---|---|---|\n")
    for d, m in rrows:
        f.write("| %s | %s | %s | %s |\n" % (d, " ".join(m["files_changed"]) if isinstance(m["files_changed"], list) else m["files_changed"],
                                            " ".join("%s(%d)" % (r["check"], r["exit"]) for r in m["checks_run"]),
                                            sum(r["violation_lines"] for r in m["checks_run"])))
    f.write("\nexit 0 = every obligation discharged on the refactored tree; exit 2 = undecided (never a violation).\n")
print(open(os.path.join(S, "RESULTS.md")).read()[:300])
