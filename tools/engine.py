"""Verification engine: lower -> compose unit -> goto-cc -> goto-instrument --dfcc -> cbmc,
parse the per-obligation verdicts, extract counterexamples, canaries, evidence.

Three harness kinds (DESIGN 2.4):
  U  unbounded modular: every loop closed by a loop contract, no --unwind; counts as proof
  F  finite complete:   loop-free over full-domain symbolic inputs (or loops over compile-time
                        constant tables, unwound completely with unwinding assertions); proof
  B  bounded exact:     --unwind N --unwinding-assertions with stated input bounds; never
                        counted as proved
"""
import json
import os
import re
import shutil
import time
from concurrent.futures import ThreadPoolExecutor

import cast
import cxx2c
from common import run_portfolio, CACHE, VERIF, Undecided, log, run, tree_hash, write_json

CBMC_CHECKS = ["--bounds-check", "--pointer-check", "--div-by-zero-check", "--signed-overflow-check",
               "--undefined-shift-check", "--pointer-primitive-check"]

# classes of CBMC obligations that are about the machinery, not the property
MACHINERY_CLASSES = ("unwind", "recursion")


class Harness:
    def __init__(self, name, kind, enforce=None, replace=(), unwind=None, defines=None, backend="sat",
                 timeout=600, tier="quick", loop_contracts=False, rec=False, canary=True, desc="",
                 carries=None, object_bits=None, extra_cbmc=(), replay=None, mem_gb=12, bound=None,
                 nondet_static=False):
        self.name = name
        self.kind = kind
        self.enforce = enforce
        self.replace = list(replace)
        self.unwind = unwind
        self.defines = dict(defines or {})
        self.backend = backend
        self.timeout = timeout
        self.tier = tier
        self.loop_contracts = loop_contracts
        self.rec = rec
        self.canary = canary
        self.desc = desc
        self.carries = carries          # which clause of the property statement this harness carries
        self.object_bits = object_bits
        self.extra_cbmc = list(extra_cbmc)
        self.replay = replay
        self.mem_gb = mem_gb
        self.bound = bound              # human-readable bound for B harnesses
        self.nondet_static = nondet_static


class UnitSpec:
    """One lowered unit: which functions of which TUs, which models, spec header, harness file."""

    def __init__(self, name, tus, functions, string_model="vstr", models=("exact.h",), spec_header=None,
                 harness_file=None, prelude="", rec_stubs=(), must_fire=True):
        self.rec_stubs = set(rec_stubs)
        self.must_fire = must_fire        # every contract macro of the spec header must meet a lowered function
        self.name = name
        self.tus = tus
        self.functions = functions      # list of (tu, signature)
        self.string_model = string_model
        self.models = models
        self.spec_header = spec_header
        self.harness_file = harness_file
        self.prelude = prelude


class Built:
    def __init__(self):
        self.dir = None
        self.unit_c = None
        self.lowered = None   # cxx2c.Unit
        self.text = None
        self.lowered_text = None


def work_dir(prop):
    d = os.path.join(CACHE, "work", prop)
    os.makedirs(d, exist_ok=True)
    return d


def _uncontracted(u, spec_text, harness_text):
    """Referenced libCellML functions that are neither lowered, nor given a contract by the spec header, nor given a body by the
    harness file: CBMC would treat them as returning anything and changing nothing."""
    out = []
    for cn in sorted(u.protos):
        if cn in u.funcs or cn.endswith("__rec") or cn.startswith("V_"):
            continue
        if re.search(r"#\s*define\s+__FC_%s\b" % re.escape(cn), spec_text):
            continue
        if re.search(r"\b%s\s*\([^;{}]*\)\s*(?:__CPROVER_\w+\s*\(.*\)\s*)*\{" % re.escape(cn), harness_text):
            continue
        out.append(cn)
    return out


def _find_definition(sig, tus, u):
    """The translation unit of /repo/src that defines the function with this demangled signature (searched by name in the
    source text, then confirmed in the AST); the TU is added to the unit."""
    from common import SRC
    name = sig.split("(")[0].replace("libcellml::", "")
    pat = re.compile(r"\b%s\s*\(" % re.escape(name))
    for f in sorted(os.listdir(SRC)):
        if not f.endswith(".cpp") or f in tus:
            continue
        try:
            txt = open(os.path.join(SRC, f), errors="replace").read()
        except OSError:
            continue
        if not pat.search(txt):
            continue
        t = cast.load_tu(f)
        if sig in t.funcs:
            tus[f] = t
            u.add_tu(t)
            return t, t.funcs[sig]
    return None, None


def lower_unit(spec, prop, known_uncontracted=None, known_functions=None):
    """Dump the ASTs, lower the functions, compose <work>/<unit>.c.  Raises Undecided.
    known_uncontracted: the callees that had neither contract nor body on the pinned tree (from the baseline).
    known_functions: the functions the unit's translation units defined on the pinned tree.
    A callee without contract or body that is new AND is a function that did not exist before (a helper extracted by a
    refactoring) is lowered as well, so that the caller is still checked against the code that runs.  A new callee that is
    an existing function (the code now calls something it did not call) stays unconstrained - an over-approximation - and
    the unit is marked: a failing obligation then needs the native replay to count (b.new_unconstrained)."""
    b = Built()
    b.dir = os.path.join(work_dir(prop), spec.name)
    shutil.rmtree(b.dir, ignore_errors=True)
    os.makedirs(b.dir)
    u = cxx2c.Unit(spec.string_model)
    u.rec_stubs = set(getattr(spec, "rec_stubs", ()))
    tus = {}
    for t in spec.tus:
        tus[t] = cast.load_tu(t)
        u.add_tu(tus[t])
    for t, sig in spec.functions:
        u.lower_function(tus[t], sig)
    spec_text = open(os.path.join(VERIF, spec.spec_header)).read() if spec.spec_header else ""
    harness_text = open(os.path.join(VERIF, spec.harness_file)).read() if spec.harness_file else ""
    b.auto_lowered = []
    b.contracts_unused = []
    b.new_unconstrained = []
    b.functions_defined = sorted(set(sg for t in tus.values() for sg in t.funcs))
    if known_uncontracted is not None:
        for _round in range(12):
            new = [cn for cn in _uncontracted(u, spec_text, harness_text) if cn not in known_uncontracted and cn not in b.new_unconstrained]
            if not new:
                break
            for cn in new:
                sig = u.proto_sig.get(cn)
                fd, ftu = None, None
                for t in list(tus.values()):
                    if sig and sig in t.funcs:
                        fd, ftu = t.funcs[sig], t
                        break
                if fd is None or known_functions is None or sig in known_functions:
                    # an existing function that the changed code newly calls: verified with its caller when it is a simple accessor
                    # (found, lowers, no loop, not recursive, at most 8 of them); otherwise unconstrained
                    ok = False
                    if len(b.auto_lowered) < 8 and sig:
                        try:
                            if fd is None:
                                ftu, fd = _find_definition(sig, tus, u)
                            if fd is not None:
                                before_protos = dict(u.protos)
                                before_sigs = dict(u.proto_sig)
                                lo = u.lower_function(ftu, fd)
                                fresh = [x for x in _uncontracted(u, spec_text, harness_text)
                                         if x not in known_uncontracted and x not in b.new_unconstrained and x not in new]
                                # a LEAF accessor only: no loop, no recursion, and it calls nothing that is itself without contract or body
                                if lo.loops == 0 and lo.name not in lo.calls and (lo.name + "__rec") not in lo.calls and not fresh:
                                    ok = True
                                else:
                                    del u.funcs[lo.name]
                                    for k in list(u.protos):
                                        if k not in before_protos:
                                            del u.protos[k]
                                    u.protos.update(before_protos)
                                    u.proto_sig.clear()
                                    u.proto_sig.update(before_sigs)
                        except Undecided:
                            ok = False
                    if ok:
                        b.auto_lowered.append(cn)
                        log("  [unit %s] new callee %s (an existing accessor) has no contract: lowered too" % (spec.name, cn))
                    else:
                        b.new_unconstrained.append(cn)
                        log("  [unit %s] new callee %s (an existing function) has no contract: unconstrained" % (spec.name, cn))
                    continue
                u.lower_function(ftu, fd)
                b.auto_lowered.append(cn)
                log("  [unit %s] new helper %s has no contract: lowered too" % (spec.name, cn))
    b.uncontracted = _uncontracted(u, spec_text, harness_text)
    b.lowered = u
    text = u.emit()
    macros = sorted(set(re.findall(r"\b__(?:FC|LC|RC)_[A-Za-z0-9_]+", text)))
    parts = ['#include "%s"' % os.path.join(VERIF, "models", "base.h")]
    for m in spec.models:
        parts.append('#include "%s"' % os.path.join(VERIF, "models", m))
    parts.append("int __exc;")
    for f in sorted(u.fields):
        parts.append("#define HAVE_%s 1" % f)      # lets a harness mention a field only when the lowered code has it
    if spec.prelude:
        parts.append(spec.prelude)
    if spec.spec_header:
        parts.append('#include "%s"' % os.path.join(VERIF, spec.spec_header))
    for m in macros:
        parts.append("#ifndef %s\n#define %s\n#endif" % (m, m))
    parts.append(text)
    # call-by-parameter-name wrappers: a harness fills the parameters it knows (struct ARGS_<fn> a; a.<param> = ...) and leaves any
    # parameter a change may add unconstrained, so the harness survives a changed signature
    for cn, lo in sorted(u.funcs.items()):
        ps = getattr(lo, "params", None)
        if not ps:
            continue
        parts.append("struct ARGS_%s { %s };" % (cn, " ".join("%s %s;" % (t, n) for t, n in ps)))
        parts.append("static inline %s CALLN_%s(struct ARGS_%s a_) { %s%s(%s); }" % (lo.ret, cn, cn, "" if lo.ret == "void" else "return ", cn, ", ".join("a_.%s" % n for _t, n in ps)))
        parts.append("#define NPARAMS_%s %d" % (cn, len(ps)))
    for cn in b.new_unconstrained:
        # a function the changed code newly calls and the spec knows nothing about: any result, no effect (over-approximation;
        # a failure that depends on it only counts when the native replay reproduces it)
        pr = u.protos.get(cn, "").split("\n")[0]
        m = re.match(r"^(.*?)\b%s\((.*)\)$" % re.escape(cn), pr)
        if m:
            rt = m.group(1).strip()
            if rt == "void":
                parts.append("%s { }" % pr)
            elif rt == "ref":
                parts.append("%s { ref r_; __CPROVER_assume(r_ < HEAP_N); return r_; }" % pr)
            else:
                parts.append("%s { %s r_; return r_; }" % (pr, rt))
    if spec.harness_file:
        parts.append('#line 1 "%s"' % os.path.join(VERIF, spec.harness_file))
        parts.append(open(os.path.join(VERIF, spec.harness_file)).read())
    b.text = "\n".join(parts) + "\n"
    b.unit_c = os.path.join(b.dir, "unit.c")
    with open(b.unit_c, "w") as f:
        f.write(b.text)
    with open(os.path.join(b.dir, "lowered.c"), "w") as f:
        f.write(text)
    b.lowered_text = text
    # loop-contract macros the spec defines must correspond to loops that exist
    if spec.spec_header and getattr(spec, "must_fire", True):
        sh = open(os.path.join(VERIF, spec.spec_header)).read()
        for m in re.findall(r"#define\s+(__LC_[A-Za-z0-9_]+)", sh):
            if m not in macros:
                raise Undecided("must-fire: spec %s gives a loop contract %s but no such loop was lowered "
                                "(loop removed or function renamed)" % (spec.spec_header, m))
        # a contract whose function is no longer lowered or called is not an error: a lowered function that disappears makes the
        # extraction fail by name, and a callee that is renamed shows up as a new callee without contract (handled above); the
        # unused contracts are reported in the evidence
        b.contracts_unused = [m[5:] for m in re.findall(r"#define\s+(__FC_[A-Za-z0-9_]+)", sh) if m not in macros]
    return b


class Result:
    def __init__(self, harness):
        self.harness = harness
        self.status = None        # "proved" | "failed" | "undecided"
        self.reason = ""
        self.obligations = []     # dicts: id, class, function, desc, status, file, line
        self.failed = []          # subset, with "ce"
        self.secs = 0.0
        self.solver_secs = 0.0
        self.canary = None        # True if the canary failed as it must
        self.cmds = []
        self.log = ""

    def counts(self):
        n = len(self.obligations)
        ok = sum(1 for o in self.obligations if o["status"] == "SUCCESS")
        return n, ok


def _value(v):
    """CBMC JSON value -> python"""
    if not isinstance(v, dict):
        return v
    nm = v.get("name")
    if nm == "struct":
        return {m["name"]: _value(m["value"]) for m in v.get("members", []) if not m["name"].startswith("$pad")}
    if nm == "array":
        return [_value(e["value"]) for e in v.get("elements", [])]
    if nm in ("integer", "boolean"):
        b = v.get("binary")
        if nm == "boolean":
            return bool(v.get("data"))
        if b is not None:
            w = v.get("width", len(b))
            x = int(b, 2)
            t = v.get("type", "")
            signed = not (t.startswith("unsigned") or "size_t" in t or t in ("ref", "_Bool", "bool") or "uint" in t)
            if t == "char":
                signed = False   # report chars as bytes
            if signed and x >= 1 << (w - 1):
                x -= 1 << w
            return x
        return v.get("data")
    if nm == "float":
        return {"float_bits": v.get("binary"), "data": v.get("data")}
    if nm == "pointer":
        return v.get("data")
    return v.get("data")


def _extract_ce(trace, harness_name):
    """Last assignment to every `in_*` local of the harness function (the symbolic inputs), and to
    the globals named `G`, `W` (ghost indices)."""
    ce = {}
    for st in trace:
        if st.get("stepType") != "assignment":
            continue
        lhs = st.get("lhs", "")
        base = re.split(r"[.\[]", lhs, 1)[0]
        if not (base.startswith("in_") or base.startswith("ce_")):
            continue
        val = _value(st.get("value"))
        if lhs == base:
            ce[base] = val
        else:
            # member / element update
            cur = ce.setdefault(base, {})
            path = re.findall(r"\.([A-Za-z_0-9$]+)|\[(\d+)l?\]", lhs[len(base):])
            try:
                for i, (fld, idx) in enumerate(path):
                    last = i == len(path) - 1
                    key = fld if fld else int(idx)
                    if last:
                        if isinstance(cur, list):
                            while len(cur) <= key:
                                cur.append(None)
                        cur[key] = val
                    else:
                        if isinstance(cur, list):
                            cur = cur[key]
                        else:
                            cur = cur.setdefault(key, {})
            except (KeyError, IndexError, TypeError):
                pass
    return ce


def run_harness(built, h, canary=False):
    """Runs one harness; returns Result.  Never raises for solver trouble: status 'undecided'."""
    r = Result(h)
    t0 = time.time()
    tag = h.name + ("__canary" if canary else "")
    a = os.path.join(built.dir, tag + ".a.gb")
    bgb = os.path.join(built.dir, tag + ".b.gb")
    defs = ["-DCBMC", "-DHARNESS_%s" % h.name]
    for k, v in h.defines.items():
        defs.append("-D%s=%s" % (k, v))
    if canary:
        defs.append("-DCANARY")
    cmd = ["goto-cc", "-I" + os.path.join(VERIF, "models")] + defs + ["--function", h.name, built.unit_c, "-o", a]
    r.cmds.append(" ".join(cmd))
    rc, out, err, secs = run(cmd, timeout=300)
    if rc != 0:
        r.status, r.reason = "undecided", "goto-cc failed: " + (err or out)[-1500:]
        r.secs = time.time() - t0
        return r
    gb = a
    if h.enforce or h.replace or h.loop_contracts:
        cmd = ["goto-instrument", "--dfcc", h.name]
        if h.enforce:
            if h.rec:
                cmd += ["--enforce-contract-rec", h.enforce]
            else:
                cmd += ["--enforce-contract", h.enforce]
        for g in h.replace:
            # a callee the lowered code no longer calls has nothing to replace
            if re.search(r"\b%s\s*\(" % re.escape(g), built.lowered_text or ""):
                cmd += ["--replace-call-with-contract", g]
        if h.loop_contracts:
            cmd += ["--apply-loop-contracts"]
        if h.nondet_static:
            cmd += ["--nondet-static"]
        cmd += [a, bgb]
        r.cmds.append(" ".join(cmd))
        rc, out, err, secs = run(cmd, timeout=600, mem_gb=h.mem_gb)
        if rc != 0:
            r.status, r.reason = "undecided", "goto-instrument failed: " + (err or out)[-1500:]
            r.secs = time.time() - t0
            return r
        gb = bgb
    base = ["cbmc", gb] + CBMC_CHECKS
    if h.unwind is not None:
        base += ["--unwind", str(h.unwind)]
        if not getattr(h, "no_unwinding_assertions", False):
            base += ["--unwinding-assertions"]
        else:
            base += ["--no-unwinding-assertions"]   # (finite-state effect slices are complete without: DESIGN 2.6)
        # loops of the harness / spec side (set-up over the object heap, frame snapshots) are bounded
        # by the heap size, not by the input bound: give them their own unwinding limit
        hb = getattr(h, "harness_unwind", None) or (int(h.defines.get("HEAP_N", 8)) + 2)
        if hb > h.unwind and not any(a == "--unwindset" for a in h.extra_cbmc):
            rc0, out0, err0, _ = run(["cbmc", gb, "--show-loops"], timeout=120)
            lowered = set(built.lowered.funcs.keys())
            ids = []
            for m in re.finditer(r"^Loop (\S+)\.(\d+):", out0, re.M):
                fn = m.group(1)
                if fn in lowered or fn.startswith(("std_", "lambda_", "vvec_", "vstr_", "vit_", "vmap_", "vset_", "__CPROVER", "spec_int", "spec_basic", "spec_real", "spec_nonneg", "spec_prefix")):
                    continue
                ids.append("%s.%s:%d" % (fn, m.group(2), hb))
            if ids:
                base += ["--unwindset", ",".join(ids)]
    base += ["--object-bits", str(h.object_bits or 10)]
    BE = {"z3": ["--z3"], "cvc5": ["--cvc5"], "kissat": ["--external-sat-solver", "kissat"], "sat": []}
    backends = [x for x in h.backend.split("|") if x]
    portfolio = backends[1:]          # "z3|cvc5": the same query on both, the first conclusive answer is taken
    base += BE.get(backends[0], [])
    base += h.extra_cbmc
    cmd = base + ["--verbosity", "6"]
    if canary:
        # only the canary assertion matters: is the assert(0) behind the call under contract reachable?
        rc0, out0, err0, _ = run(["cbmc", gb, "--show-properties"], timeout=120)
        m0 = re.search(r"^Property (%s\.\S+):\n(?:.*\n){0,3}?.*CANARY reachable" % re.escape(h.name), out0, re.M)
        if m0:
            cmd += ["--property", m0.group(1)]
        else:
            cmd += ["--stop-on-fail"]
    r.cmds.append(" ".join(cmd))
    if portfolio:
        alts = [cmd] + [[c for c in cmd if c not in BE[backends[0]]] + BE.get(b, []) for b in portfolio]
        rc, out, err, secs, win = run_portfolio(alts, timeout=h.timeout, mem_gb=h.mem_gb,
                                                conclusive=lambda rc_, out_: rc_ in (0, 10) and "VERIFICATION" in out_)
        r.backend_used = backends[win] if win >= 0 else "/".join(backends)
        if win > 0:
            r.cmds[-1] = " ".join(alts[win])
    else:
        rc, out, err, secs = run(cmd, timeout=h.timeout, mem_gb=h.mem_gb)
        r.backend_used = backends[0]
    r.solver_secs = secs
    r.secs = time.time() - t0
    with open(os.path.join(built.dir, tag + ".cbmc.txt"), "w") as f:
        f.write(out)
    if rc == -9:
        r.status, r.reason = "undecided", "cbmc timed out after %ds" % h.timeout
        return r
    status = None
    cur_file, cur_fn = "", ""
    for line in out.split("\n"):
        m = re.match(r"^(\S.*) function (\S+)$", line)
        if m:
            cur_file, cur_fn = m.group(1), m.group(2)
            continue
        m = re.match(r"^\[(.+?)\] (?:line (\d+) )?(.*): (SUCCESS|FAILURE|UNKNOWN|ERROR)$", line)
        if m:
            pid = m.group(1)
            parts = pid.split(".")
            cls = parts[-2] if len(parts) >= 3 else (parts[-1] if parts else "")
            o = {"id": pid, "class": cls, "function": cur_fn, "desc": m.group(3), "status": m.group(4),
                 "file": cur_file, "line": m.group(2) or ""}
            r.obligations.append(o)
            if m.group(4) == "FAILURE":
                r.failed.append(dict(o))
            continue
        if line.startswith("VERIFICATION SUCCESSFUL"):
            status = "success"
        elif line.startswith("VERIFICATION FAILED"):
            status = "failure"
    r.log = out[-4000:]
    if canary:
        r.status = "failed" if "CANARY reachable" in out and status == "failure" else ("proved" if status == "success" else "undecided")
        if r.status == "failed":
            r.failed = [{"id": "canary", "class": "assertion", "function": h.name, "desc": "CANARY reachable", "status": "FAILURE", "file": "", "line": ""}]
        else:
            r.reason = "canary run: " + (out[-300:] if status is None else status)
        return r
    nobody = sorted(set(re.findall(r"no body for (?:function|callee) (\S+)", out)))
    ignored = re.findall(r"(?i)ignoring.*(?:forall|exists)", out)
    if status == "success":
        if nobody:
            r.status, r.reason = "undecided", "bodyless function(s) reached: " + ", ".join(nobody)[:600]
        elif ignored:
            r.status, r.reason = "undecided", "quantifier ignored by the back end"
        elif not r.obligations:
            r.status, r.reason = "undecided", "vacuous: zero obligations"
        else:
            r.status = "proved"
    elif status == "failure":
        r.status = "failed"
        if not canary:
            _traces(built, h, r, base, tag)
    else:
        r.status, r.reason = "undecided", "cbmc ended without a verdict (rc=%s): %s" % (rc, (err or out)[-800:])
    return r


def _traces(built, h, r, base, tag):
    """Counterexamples for the (first few) failing obligations: one extra cbmc run each, restricted
    to that property.  JSON traces for SAT harnesses; the SMT harnesses carry huge symbolic arrays
    whose JSON rendering takes minutes, so only scalar inputs are read from their text trace."""
    seen = set()
    todo = []
    for o in r.failed:
        k = (o["function"], o["class"], o["desc"])
        if k in seen or o["class"] in MACHINERY_CLASSES:
            continue
        seen.add(k)
        todo.append(o)
    for o in todo[:4]:
        if h.backend.split("|")[0] in ("z3", "cvc5"):
            cmd = base + ["--trace", "--property", o["id"]]
            rc, out, err, secs = run(cmd, timeout=min(h.timeout, 300), mem_gb=h.mem_gb)
            ce = {}
            for m in re.finditer(r"^  ((?:in|ce)_[A-Za-z0-9_]+)=(-?\d+)[a-z]* ", out, re.M):
                ce[m.group(1)] = int(m.group(2))
            for m in re.finditer(r"^  ((?:in|ce)_[A-Za-z0-9_]+)=(TRUE|FALSE) ", out, re.M):
                ce[m.group(1)] = m.group(2) == "TRUE"
            for m in re.finditer(r"^  ([GH])=(\d+)[a-z]* ", out, re.M):
                ce[m.group(1)] = int(m.group(2))
            o["ce"] = ce
        else:
            cmd = base + ["--trace", "--json-ui", "--property", o["id"]]
            rc, out, err, secs = run(cmd, timeout=min(h.timeout, 600), mem_gb=h.mem_gb)
            try:
                msgs = json.loads(out)
            except ValueError:
                continue
            for mm in msgs:
                for p in mm.get("result", []) if isinstance(mm, dict) else []:
                    if p.get("status") == "FAILURE" and p.get("property") == o["id"]:
                        o["ce"] = _extract_ce(p.get("trace", []), h.name)


def run_all(built_by_unit, harnesses, tier, jobs=None):
    """Runs harnesses (and their canaries) in parallel.  harnesses: list of (unit_name, Harness)."""
    jobs = jobs or int(os.environ.get("VERIF_JOBS", "14"))
    sel = [(u, h) for (u, h) in harnesses if tier == "thorough" or h.tier == "quick"]
    tasks = []
    for u, h in sel:
        tasks.append((u, h, False))
        if h.canary:
            tasks.append((u, h, True))

    def one(t):
        u, h, can = t
        res = run_harness(built_by_unit[u], h, canary=can)
        log("  [%s] %-44s %-9s %6.1fs %s" % (h.kind, h.name + ("(canary)" if can else ""), res.status, res.secs,
                                             ("- " + res.reason[:200]) if res.reason else ""))
        return t, res

    results, canaries = {}, {}
    with ThreadPoolExecutor(max_workers=jobs) as ex:
        for (u, h, can), res in ex.map(one, tasks):
            if can:
                canaries[h.name] = res
            else:
                results[h.name] = res
    for name, res in results.items():
        if name in canaries:
            c = canaries[name]
            # the canary `assert(0)` after the call under contract must be reachable
            res.canary = c.status == "failed" and any(o["desc"].startswith("CANARY") for o in c.failed)
            res.canary_status = c.status
    return results


def build_native(built, spec, wrap_file, driver_cpp, name, defines=None, asan=False):
    """Compile the lowered unit natively (gcc, C) together with `wrap_file`, and link it with the
    C++ driver against the static library of the real code built from /repo's working tree."""
    import nativelib
    text = built.text
    # the harness file is CBMC-only: cut it off and append the native wrappers instead
    if spec.harness_file:
        marker = '#line 1 "%s"' % os.path.join(VERIF, spec.harness_file)
        text = text.split(marker)[0]
    text += '\n#line 1 "%s"\n' % os.path.join(VERIF, wrap_file) + open(os.path.join(VERIF, wrap_file)).read()
    cfile = os.path.join(built.dir, name + "_native.c")
    with open(cfile, "w") as f:
        f.write(text)
    obj = os.path.join(built.dir, name + "_native.o")
    defs = ["-D%s=%s" % (k, v) for k, v in (defines or {}).items()]
    rc, out, err, secs = run(["gcc", "-std=gnu11", "-O1", "-g", "-w", "-I" + os.path.join(VERIF, "models"), "-c", cfile, "-o", obj] + defs + (
        ["-fsanitize=address,undefined"] if asan else []), timeout=300)
    if rc != 0:
        raise Undecided("native build of the lowered unit failed (lowering defect, not a violation):\n" + err[-3000:])
    exe = os.path.join(built.dir, name + "_native")
    nativelib.compile_driver(os.path.join(VERIF, driver_cpp), exe, objs=[obj], asan=asan)
    return exe
