"""Decision logic shared by every property check (DESIGN 2.4): classify failed obligations,
replay counterexamples on the real code, apply known findings, write evidence, print the
VIOLATION / KNOWN-FINDING lines, choose the exit code."""
import hashlib
import json
import os
import re
import sys
import time
import traceback

import engine
from common import CACHE, EXIT_OK, EXIT_UNDECIDED, EXIT_VIOLATION, OUTROOT, REPO, VERIF, Undecided, log, tree_hash, write_json

STANDING_ASSUMPTIONS = [
    "clang's typed AST is a faithful reading of the source that gcc compiles",
    "cxx2c lowering drops: reference counts/destructors/object lifetime, allocation failure, move-vs-copy, "
    "exception propagation (a throwing library call is an assertion at the call site), vector capacity / iterator "
    "invalidation, everything outside the selected functions (DESIGN 2.1)",
    "std:: models of /verif/models (differentially tested against libstdc++ on every run, not proved)",
    "CBMC 6.11 / goto-instrument --dfcc contract instrumentation and the SAT/SMT back ends are sound",
]


class Finding:
    def __init__(self, prop, harness, obligation, ce, confirmed, detail, replay_path, tag=None):
        self.prop = prop
        self.harness = harness
        self.obligation = obligation
        self.ce = ce
        self.confirmed = confirmed
        self.detail = detail
        self.replay_path = replay_path
        self.tag = tag        # stable identification of the failing input / call site for known findings


def load_known(prop):
    p = os.path.join(VERIF, "known_findings.json")
    try:
        kf = json.load(open(p))
    except (OSError, ValueError):
        return []
    return [k for k in kf.get("findings", []) if k.get("property") == prop]


def load_baseline(prop):
    p = os.path.join(VERIF, "specs", prop, "baseline.json")
    try:
        return set(json.load(open(p)).get("discharged", []))
    except (OSError, ValueError):
        return set()


def load_uncontracted(prop):
    """(unit -> callees that had neither a contract nor a body on the pinned tree, unit -> functions defined in its TUs); None: not recorded"""
    p = os.path.join(VERIF, "specs", prop, "baseline.json")
    try:
        j = json.load(open(p))
        return j.get("uncontracted_callees"), j.get("functions_defined")
    except (OSError, ValueError):
        return None, None


def okey(harness, o):
    # obligations generated per data member by one schema ("no container member is used before it is
    # reset") are one obligation quantified over the members: a new member is not a new obligation
    fn = re.sub(r"^E_(use|reset)__\w+$", r"E_\1__*", o.get("function", ""))
    if fn != o.get("function", ""):
        harness = "*"      # ... and over the services
    return "%s|%s|%s" % (harness, fn, o.get("class", ""))


class Check:
    def __init__(self, prop, level, design_ref=""):
        self.prop = prop
        self.level = level
        self.t0 = time.time()
        self.tier = "quick"
        self.seed = 0
        self.units = []
        self.harnesses = []         # (unit name, Harness)
        self.replayers = {}         # harness name -> fn(harness, obligation, ce) -> (confirmed, detail, tag, extra)
        self.pre_steps = []         # callables(check) run after lowering (conformance, inventories); may raise Undecided
        self.post_steps = []        # callables(check, results)
        self.trusted_base = []
        self.assumptions = list(STANDING_ASSUMPTIONS) + [
            "a called libCellML function with neither a contract nor a body in the unit returns an arbitrary value and changes nothing "
            "(listed per unit under coverage.callees_without_contract_or_body)"]
        self.explanation = ""
        self.not_covered = []
        self.samples = []
        self.extra_cov = {}
        self.undecided = []
        self.violations = []
        self.known_hits = []
        self.built = {}
        self.results = {}
        self.native_facts = []      # (name, ok, detail) supporting native/static facts
        self.functions_under_contract = []

    # ---- cli ------------------------------------------------------------------------------
    def parse_args(self, argv):
        self.tier = os.environ.get("VERIF_TIER", "quick")
        try:
            self.seed = int(os.environ.get("VERIF_SEED", "0"))
        except ValueError:
            self.seed = 0
        it = iter(argv)
        self.replay_file = None
        for a in it:
            if a == "--tier":
                self.tier = next(it)
            elif a in ("quick", "thorough"):
                self.tier = a
            elif a == "--replay":
                self.replay_file = next(it)
            elif a == "--write-baseline":
                self.write_baseline = True
        if self.tier not in ("quick", "thorough"):
            self.tier = "quick"

    # ---- main -----------------------------------------------------------------------------
    def run(self):
        try:
            self._run()
        except Undecided as e:
            self.undecided.append(str(e))
        except Exception:
            self.undecided.append("internal error of the checking machinery:\n" + traceback.format_exc())
        return self.finish()

    def _run(self):
        log("[%s] tier=%s tree=%s" % (self.prop, self.tier, tree_hash()))
        unc, fdef = (None, None) if getattr(self, "write_baseline", False) else load_uncontracted(self.prop)
        self.unit_of = {h.name: u for (u, h) in self.harnesses}
        for spec in self.units:
            self.built[spec.name] = engine.lower_unit(spec, self.prop, None if unc is None else set(unc.get(spec.name, [])),
                                                      None if fdef is None else set(fdef.get(spec.name, [])))
            for lo in self.built[spec.name].lowered.funcs.values():
                self.functions_under_contract.append({"function": lo.sig, "lowered_as": lo.name, "file": lo.file,
                                                      "lines": [lo.line0, lo.line1], "loops": lo.loops,
                                                      "text_sha256": hashlib.sha256(lo.text.encode()).hexdigest()[:16]})
        for st in self.pre_steps:
            st(self)
        self.results = engine.run_all(self.built, self.harnesses, self.tier)
        baseline = load_baseline(self.prop)
        known = load_known(self.prop)
        for name, res in sorted(self.results.items()):
            h = res.harness
            if res.status == "undecided":
                self.undecided.append("%s: %s" % (name, res.reason))
                continue
            if res.status == "proved":
                # a pass only counts when the code behind the call under contract is reachable
                if h.canary and res.canary is False:
                    self.undecided.append("%s: vacuity guard: the canary assert(0) behind the call under contract was not "
                                          "reached (canary run: %s)" % (name, getattr(res, "canary_status", "?")))
                continue
            seen = set()
            for o in res.failed:
                if o["class"] in engine.MACHINERY_CLASSES or o["desc"].startswith("unwinding assertion"):
                    self.undecided.append("%s: %s: %s (bound too small for this code)" % (name, o["id"], o["desc"]))
                    continue
                key = (o["function"], o["class"], o["desc"])
                if key in seen:
                    continue
                seen.add(key)
                self.decide_failure(h, res, o, baseline, known)
        for st in self.post_steps:
            st(self, self.results)

    def decide_failure(self, h, res, o, baseline, known):
        rp = self.replayers.get(h.name) or self.replayers.get("*")
        confirmed, detail, tag, extra = None, "no native replay is defined for this harness", None, {}
        if rp is not None:
            try:
                confirmed, detail, tag, extra = rp(self, h, o, o.get("ce", {}))
            except Undecided as e:
                confirmed, detail = None, "replay could not be run: %s" % e
        path = self.write_replay(h, res, o, confirmed, detail, tag, extra)
        what = "%s: obligation %s (%s) at %s:%s failed" % (h.name, o["id"], o["desc"], o["file"], o["line"])
        if confirmed is True:
            for k in known:
                if k.get("status") == "known" and self.matches_known(k, h, o, tag):
                    self.known_hits.append((k, what, path))
                    return
            self.violations.append((what + " - reproduced on the real code: " + detail, path, ""))
        elif confirmed is False:
            self.undecided.append(what + " but the counterexample does NOT reproduce on the real code (%s): "
                                  "model/lowering imprecision, see %s" % (detail, path))
        else:
            nu = getattr(self.built.get(getattr(self, "unit_of", {}).get(h.name)), "new_unconstrained", None)
            if nu:
                self.undecided.append(what + "; the changed code calls %s, which has no contract in this unit and was treated as returning anything - "
                                      "the failure may come from that over-approximation, and the native replay did not reproduce it (%s)" % (", ".join(nu), detail))
                return
            rr = getattr(self, "replay_required", None)
            if rr is not None and rr(h, o):
                self.undecided.append(what + "; this obligation over-approximates (it may fail on code that keeps the property) and the native replay "
                                      "did not reproduce a failure: " + detail)
                return
            if okey(h.name, o) in baseline:
                for k in known:
                    if k.get("status") == "known" and self.matches_known(k, h, o, tag):
                        self.known_hits.append((k, what, path))
                        return
                self.violations.append((what + " (discharged on the pinned tree; %s)" % detail, path, " no-failing-input-found"))
            else:
                self.undecided.append(what + "; not in the baseline of discharged obligations and no replay: " + detail)

    def matches_known(self, k, h, o, tag):
        if k.get("harness") and k["harness"] != h.name:
            return False
        if k.get("function") and k["function"] != o.get("function"):
            return False
        if k.get("class") and k["class"] != o.get("class"):
            return False
        if k.get("desc_re") and not re.search(k["desc_re"], o.get("desc", "")):
            return False
        if k.get("tag_re"):
            if tag is None or not re.search(k["tag_re"], tag):
                return False
        return True

    def write_replay(self, h, res, o, confirmed, detail, tag, extra):
        d = os.path.join(OUTROOT, "out", "replay", self.prop)
        os.makedirs(d, exist_ok=True)
        path = os.path.join(d, "%s__%s.json" % (h.name, re.sub(r"[^A-Za-z0-9_.]", "_", o["id"] or "obligation")))
        write_json(path, {
            "property": self.prop, "harness": h.name, "harness_kind": h.kind,
            "failed_obligation": {k: o.get(k) for k in ("id", "class", "function", "desc", "file", "line")},
            "counterexample": o.get("ce", {}), "tag": tag,
            "replayed_on_real_code": confirmed, "replay_detail": detail, "replay_extra": extra,
            "verifier_commands": res.cmds, "verifier_log_tail": res.log[-1500:],
            "how_to_rerun": "cd /verif && ./check %s --replay %s" % (self.prop, path),
        })
        return path

    # ---- reporting ------------------------------------------------------------------------
    def finish(self):
        obligations, discharged, bounded_ob, bounded_ok = 0, 0, 0, 0
        per_h = []
        solver = 0.0
        for name, res in sorted(self.results.items()):
            n, ok = res.counts()
            h = res.harness
            solver += res.solver_secs
            if h.kind == "B":
                bounded_ob += n
                bounded_ok += ok
            else:
                obligations += n
                discharged += ok
            classes = {}
            for o in res.obligations:
                classes[o["class"]] = classes.get(o["class"], 0) + 1
            per_h.append({"harness": name, "kind": h.kind, "carries": h.carries or h.desc, "status": res.status,
                          "obligations": n, "discharged": ok, "by_class": classes, "back_end": h.backend,
                          "unwind": h.unwind, "bound": h.bound, "enforce": h.enforce, "replaced_by_contract": h.replace,
                          "loop_contracts": h.loop_contracts, "canary_reached": res.canary,
                          "solver_s": round(res.solver_secs, 2), "reason": res.reason[:300]})
        samples = list(self.samples)
        for name, res in sorted(self.results.items()):
            for o in res.obligations:
                if o["class"] in ("postcondition", "assertion", "precondition", "assigns", "loop_invariant_step") and len(samples) < 8:
                    samples.append({"harness": name, "obligation": o["id"], "desc": o["desc"], "status": o["status"],
                                    "at": "%s:%s" % (o["file"], o["line"])})
                    break
        if not samples:
            samples = [{"note": "no obligation was generated in this run", "undecided": self.undecided[:3]}]
        carrying = set()
        for name, res in self.results.items():
            for o in res.obligations:
                if o["class"] in ("postcondition", "precondition", "assertion", "assigns", "frees", "loop_invariant_base",
                                  "loop_invariant_step", "loop_assigns", "loop_decreases", "loop_step_unwinding"):
                    carrying.add((name, o["function"], o["class"], o["desc"]))
        nviol = len(self.violations)
        cov = {
            "obligations": obligations, "discharged": discharged,
            "bounded_obligations": bounded_ob, "bounded_discharged": bounded_ok,
            "evaluations": max(1, obligations + bounded_ob),
            "distinct_nontrivial": max(2, len(carrying)) if (obligations + bounded_ob) else 2,
            "rule": "one evaluation = one verifier obligation decided in this run; distinct_nontrivial = distinct "
                    "(harness, function, class, text) obligations that carry contract content (postcondition, "
                    "precondition at a call, model assertion = C++ exception/null dereference, assigns/frees frame, loop "
                    "invariant) - generated memory-safety side checks are not counted",
            "checker_cmd": "goto-cc | goto-instrument --dfcc <h> --enforce-contract f [--replace-call-with-contract g] "
                           "[--apply-loop-contracts] | cbmc (cbmc 6.11.0); exact commands per harness in "
                           ".cache/work/%s/*/ and in replay files" % self.prop,
            "trusted_base": self.trusted_base,
            "samples": samples,
            "explanation": self.explanation,
            "harnesses": per_h,
            "functions_under_contract": self.functions_under_contract,
            "not_covered": self.not_covered,
            "supporting_native_facts": [{"fact": n, "ok": ok, "detail": d} for (n, ok, d) in self.native_facts],
            "solver_s": round(solver, 1),
            "undecided": self.undecided[:20],
            "known_findings_hit": [k.get("id", k.get("what", "")) for (k, _w, _p) in self.known_hits],
            "repo_tree_hash": tree_hash(),
        }
        cov["callees_without_contract_or_body"] = {n: getattr(b, "uncontracted", []) for n, b in sorted(self.built.items()) if getattr(b, "uncontracted", None)}
        cov["callees_lowered_because_new"] = {n: b.auto_lowered for n, b in sorted(self.built.items()) if getattr(b, "auto_lowered", None)}
        cov["contracts_that_met_no_function"] = {n: b.contracts_unused for n, b in sorted(self.built.items()) if getattr(b, "contracts_unused", None)}
        cov["new_callees_left_unconstrained"] = {n: b.new_unconstrained for n, b in sorted(self.built.items()) if getattr(b, "new_unconstrained", None)}
        cov.update(self.extra_cov)
        ev = {"property_id": self.prop, "tier": self.tier, "seed": self.seed, "level": self.level, "coverage": cov,
              "assumptions": self.assumptions, "wall_s": round(time.time() - self.t0, 1), "violations": nviol}
        if self.level == "proof" and (discharged != obligations or obligations == 0):
            # a proof-level claim needs every obligation discharged; say what happened instead
            ev["level"] = "other"
            cov["explanation"] = ("NOT a proof in this run: %d of %d obligations discharged. " % (discharged, obligations)) + self.explanation
        write_json(os.path.join(OUTROOT, "evidence", self.prop + ".json"), ev)
        for k, what, path in self.known_hits:
            print("KNOWN-FINDING: property=%s %s [%s]" % (self.prop, k.get("what", ""), what))
        for what, path, sfx in self.violations:
            print("VIOLATION property=%s replay=%s%s" % (self.prop, path, sfx))
            log("   " + what)
        if self.violations:
            return EXIT_VIOLATION
        if self.undecided:
            for u in self.undecided:
                print("UNDECIDED property=%s %s" % (self.prop, u.replace("\n", " | ")[:1500]))
            return EXIT_UNDECIDED
        print("OK property=%s tier=%s obligations=%d discharged=%d bounded=%d/%d wall=%.0fs" % (
            self.prop, self.tier, obligations, discharged, bounded_ok, bounded_ob, time.time() - self.t0))
        return EXIT_OK

    def write_baseline_file(self):
        keys = set()
        for name, res in self.results.items():
            for o in res.obligations:
                if o["status"] == "SUCCESS":
                    keys.add(okey(name, o))
        write_json(os.path.join(VERIF, "specs", self.prop, "baseline.json"),
                   {"note": "obligation classes discharged on the pinned tree (harness|function|class); a failing obligation "
                            "listed here is reported as a violation even when no counterexample can be replayed",
                    "discharged": sorted(keys),
                    "uncontracted_callees": {n: b.uncontracted for n, b in sorted(self.built.items()) if hasattr(b, "uncontracted")},
                    "functions_defined": {n: b.functions_defined for n, b in sorted(self.built.items()) if hasattr(b, "functions_defined")}})
