"""Shared plumbing for the /verif checks: paths, hashing of /repo's working tree, generated
headers, subprocess helpers with hard time/memory limits, exit codes."""
import hashlib
import json
import os
import re
import resource
import shutil
import subprocess
import sys
import time

VERIF = os.path.dirname(os.path.dirname(os.path.abspath(__file__)))
REPO = os.environ.get("VERIF_REPO", "/repo")
SRC = os.path.join(REPO, "src")
CACHE = os.environ.get("VERIF_CACHE", os.path.join(VERIF, ".cache"))
# where evidence/ and out/ are written; only the seeded-change evaluation (tools/seeded_eval.sh) redirects it so that
# runs against a scratch tree do not overwrite the evidence of /repo
OUTROOT = os.environ.get("VERIF_OUTROOT", VERIF)
GUARD = "LIBCELLML_VERIF"
XML2_INC = "/root/miniconda/include/libxml2"
XML2_LIBDIR = "/root/miniconda/lib"

EXIT_OK, EXIT_VIOLATION, EXIT_UNDECIDED = 0, 1, 2


class Undecided(Exception):
    """The machinery could not decide (extraction abort, time-out, solver error, must-fire
    mismatch).  Never reported as a violation."""


def log(*a):
    print(*a, file=sys.stderr, flush=True)


def src_files():
    out = []
    for root, _dirs, files in os.walk(SRC):
        for f in sorted(files):
            if f.endswith((".cpp", ".h", ".in.h")):
                out.append(os.path.join(root, f))
    return sorted(out)


_tree_hash = None


def tree_hash():
    """Content hash of every source/header under /repo/src (the working tree, not HEAD)."""
    global _tree_hash
    if _tree_hash is None:
        h = hashlib.sha256()
        for p in src_files():
            h.update(p.encode())
            with open(p, "rb") as f:
                h.update(hashlib.sha256(f.read()).digest())
        _tree_hash = h.hexdigest()[:16]
    return _tree_hash


def gen_headers():
    """Write the two CMake-generated headers (exportdefinitions.h, versionconfig.h) so that
    nothing depends on /repo/_build being present."""
    d = os.path.join(CACHE, "gen")
    os.makedirs(os.path.join(d, "libcellml"), exist_ok=True)
    ver = "0.0.0"
    try:
        txt = open(os.path.join(REPO, "CMakeLists.txt")).read()
        m = re.search(r"set\(_PROJECT_VERSION\s+([0-9.]+)\)", txt)
        if m:
            ver = m.group(1)
    except OSError:
        pass
    ma, mi, pa = (ver.split(".") + ["0", "0"])[:3]
    exp = os.path.join(d, "libcellml", "exportdefinitions.h")
    want = """#ifndef LIBCELLML_EXPORT_H
#define LIBCELLML_EXPORT_H
#define LIBCELLML_EXPORT __attribute__((visibility("default")))
#define LIBCELLML_NO_EXPORT __attribute__((visibility("hidden")))
#define LIBCELLML_DEPRECATED __attribute__ ((__deprecated__))
#define LIBCELLML_DEPRECATED_EXPORT LIBCELLML_EXPORT LIBCELLML_DEPRECATED
#define LIBCELLML_DEPRECATED_NO_EXPORT LIBCELLML_NO_EXPORT LIBCELLML_DEPRECATED
#endif
"""
    _write_if_changed(exp, want)
    tpl = open(os.path.join(SRC, "configure", "versionconfig.in.h")).read()
    tpl = (tpl.replace("@libCellML_VERSION_MAJOR@", ma).replace("@libCellML_VERSION_MINOR@", mi)
           .replace("@libCellML_VERSION_PATCH@", pa)
           .replace("@LIBCELLML_LIBRARY_VERSION@", "0x%02d%02d%02d" % (int(ma), int(mi), int(pa)))
           .replace("@LIBCELLML_LIBRARY_VERSION_STRING@", ver))
    _write_if_changed(os.path.join(d, "versionconfig.h"), tpl)
    return d


def _write_if_changed(path, text):
    try:
        if open(path).read() == text:
            return
    except OSError:
        pass
    with open(path, "w") as f:
        f.write(text)


def include_flags():
    g = gen_headers()
    return ["-I" + g, "-I" + os.path.join(SRC, "api"), "-I" + os.path.join(SRC, "api/libcellml/module"),
            "-I" + SRC, "-isystem", XML2_INC,
            # what /repo/src/CMakeLists.txt configures for libxml2 >= 2.12 (xmldoc.cpp only)
            "-DXML_ERROR_CALLBACK_ARGUMENT_TYPE=const xmlError *"]


def _limits(mem_gb):
    def f():
        if mem_gb:
            b = int(mem_gb * (1 << 30))
            resource.setrlimit(resource.RLIMIT_AS, (b, b))
        os.setsid()
    return f


def run(cmd, timeout=600, mem_gb=None, cwd=None, env=None, stdin=None):
    """Run cmd; returns (rc, stdout, stderr, seconds).  rc = -9 on time-out."""
    t0 = time.time()
    e = dict(os.environ)
    if env:
        e.update(env)
    p = subprocess.Popen(cmd, stdout=subprocess.PIPE, stderr=subprocess.PIPE, cwd=cwd, env=e,
                         stdin=subprocess.PIPE if stdin is not None else subprocess.DEVNULL,
                         preexec_fn=_limits(mem_gb), text=True, errors="replace")
    try:
        out, err = p.communicate(stdin, timeout=timeout)
        rc = p.returncode
    except subprocess.TimeoutExpired:
        try:
            os.killpg(p.pid, 9)
        except ProcessLookupError:
            pass
        out, err = p.communicate()
        rc = -9
    return rc, out, err, time.time() - t0


def run_portfolio(cmds, timeout=600, mem_gb=None, conclusive=lambda rc, out: rc in (0, 10)):
    """Run the commands concurrently (same query, different back ends); the first CONCLUSIVE answer wins and the others are
    killed.  Returns (rc, stdout, stderr, seconds, index of the winner or -1)."""
    import tempfile
    t0 = time.time()
    procs = []
    for c in cmds:
        fo, fe = tempfile.TemporaryFile("w+"), tempfile.TemporaryFile("w+")
        procs.append((subprocess.Popen(c, stdout=fo, stderr=fe, stdin=subprocess.DEVNULL, preexec_fn=_limits(mem_gb), text=True), fo, fe))

    def read(f):
        f.seek(0)
        return f.read()

    def kill_all():
        for p, _fo, _fe in procs:
            if p.poll() is None:
                try:
                    os.killpg(p.pid, 9)
                except ProcessLookupError:
                    pass
        for p, _fo, _fe in procs:
            p.wait()
    last = None
    done = set()
    while time.time() - t0 < timeout:
        for k, (p, fo, fe) in enumerate(procs):
            if k in done or p.poll() is None:
                continue
            done.add(k)
            out, err = read(fo), read(fe)
            if conclusive(p.returncode, out):
                kill_all()
                return p.returncode, out, err, time.time() - t0, k
            last = (p.returncode, out, err)
        if len(done) == len(procs):
            rc, out, err = last
            return rc, out, err, time.time() - t0, -1
        time.sleep(0.2)
    kill_all()
    return -9, "", "", time.time() - t0, -1


def prune_cache(prefix, keep):
    """Keep only the `keep` most recent cache directories whose name starts with prefix."""
    try:
        ds = [d for d in os.listdir(CACHE) if d.startswith(prefix)]
    except OSError:
        return
    ds.sort(key=lambda d: os.path.getmtime(os.path.join(CACHE, d)), reverse=True)
    for d in ds[keep:]:
        shutil.rmtree(os.path.join(CACHE, d), ignore_errors=True)


def write_json(path, obj):
    os.makedirs(os.path.dirname(path), exist_ok=True)
    tmp = path + ".tmp"
    with open(tmp, "w") as f:
        json.dump(obj, f, indent=1, sort_keys=False)
        f.write("\n")
    os.replace(tmp, path)
