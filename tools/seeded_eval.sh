#!/bin/sh
# Runs the registered quick check of the property of each seeded change against /repo with the
# change applied (then undone).  Results: seeded/<id>/check_result.txt.  Not part of any check.
# Evidence and replay files of these runs go to a scratch directory (VERIF_OUTROOT), not to /verif/evidence.
cd /verif
LIST=""; if [ $# -gt 0 ]; then for a in "$@"; do LIST="$LIST seeded/$a"; done; else LIST=$(ls -d seeded/C*_m*); fi
for d in $LIST; do
  id=$(basename $d); prop=${id%%_*}
  [ -f checks/$prop.py ] || { echo "$id: no check for $prop"; continue; }
  git -C /repo checkout -q -- . ; 
  if ! git -C /repo apply $PWD/$d/patch.diff 2>/dev/null && ! git -C /repo apply --3way $PWD/$d/patch.diff 2>/dev/null; then echo "$id: patch does not apply" | tee $d/check_result.txt; git -C /repo checkout -q -- .; continue; fi
  start=$(date +%s)
  VERIF_OUTROOT=/tmp/verif_seeded_scratch timeout 2400 ./check $prop quick > /tmp/seeded_eval_out.txt 2>&1; rc=$?
  end=$(date +%s)
  { echo "check=$prop exit=$rc seconds=$((end-start))"; grep -E "^(VIOLATION|KNOWN-FINDING|UNDECIDED|OK)" /tmp/seeded_eval_out.txt | cut -c1-600; grep -E "^   " /tmp/seeded_eval_out.txt | cut -c1-500 | head -6; } > $d/check_result.txt
  echo "$id: exit=$rc $(grep -c '^VIOLATION' /tmp/seeded_eval_out.txt) violation line(s)"
  git -C /repo checkout -q -- . ; git -C /repo reset -q --hard HEAD
done
rm -rf /tmp/verif_seeded_scratch
