"""Typed clang AST of a real translation unit of /repo (current working tree).

`load_tu("utilities.cpp")` runs
    clang++ -fsyntax-only -DLIBCELLML_VERIF <repo include paths>
            -Xclang -ast-dump=json -Xclang -ast-dump-filter=libcellml::
and returns a TU object with every top-level declaration in namespace libcellml, absolute
source locations restored (clang prints file/line differentially), and indexes by id and by
demangled qualified signature."""
import bisect
import re
import json
import os
import pickle
import subprocess

from common import CACHE, GUARD, SRC, Undecided, include_flags, log, run, tree_hash, prune_cache


class TU:
    def __init__(self, name, decls):
        self.name = name
        self.decls = decls
        self.by_id = {}
        self.records = {}     # id -> qualified record name
        self.funcs = {}       # demangled signature -> decl with body
        self.func_by_id = {}  # id -> decl (any FunctionDecl/CXXMethodDecl)
        self.mangled = {}     # id -> mangledName
        self._index()

    # ---- indexing -------------------------------------------------------------------------
    def _index(self):
        def walk(n, scope):
            k = n.get("kind")
            if "id" in n:
                self.by_id[n["id"]] = n
            if k in ("CXXRecordDecl", "ClassTemplateSpecializationDecl") and n.get("name"):
                q = scope + [n["name"]]
                if not n.get("isImplicit"):
                    self.records.setdefault(n["id"], "::".join(q))
                    n["_qname"] = "::".join(q)
                for c in n.get("inner", []):
                    walk(c, q)
                return
            if k in ("FunctionDecl", "CXXMethodDecl", "CXXConstructorDecl", "CXXDestructorDecl"):
                self.func_by_id[n["id"]] = n
                n["_scope"] = "::".join(scope)
            for c in n.get("inner", []):
                walk(c, scope)
        for d in self.decls:
            walk(d, ["libcellml"])
        # out-of-line method definitions: find their class through previousDecl / parentDeclContextId
        names = [f.get("mangledName") for f in self.func_by_id.values() if f.get("mangledName")]
        dem = demangle(sorted(set(names)))
        for f in self.func_by_id.values():
            m = f.get("mangledName")
            if not m:
                continue
            f["_sig"] = dem.get(m, m)
            if any(c.get("kind") == "CompoundStmt" for c in f.get("inner", [])):
                self.funcs[f["_sig"]] = f

    def find(self, sig):
        """Find a defined function by demangled signature; `sig` may omit the parameter list
        when the name is not overloaded."""
        if sig in self.funcs:
            return self.funcs[sig]
        want = _norm(sig)
        c = [s for s in self.funcs if _norm(s) == want]
        if len(c) == 1:
            return self.funcs[c[0]]
        # members of closure types (lambdas) live "inside" a function: `f(...)::$_0::operator()`
        c = [s for s in self.funcs if _norm(s).split("(")[0] == want and not re.search(r"\)( const)?::", s) and "{lambda" not in s]
        if len(c) == 1:
            return self.funcs[c[0]]
        if not c:
            raise Undecided("extraction: function %s not found in %s (renamed or removed)" % (sig, self.name))
        raise Undecided("extraction: %s is ambiguous in %s: %s" % (sig, self.name, c))


def _norm(s):
    import re
    s = s.replace("[abi:cxx11]", "")
    s = s.replace("std::__cxx11::basic_string<char, std::char_traits<char>, std::allocator<char> >", "std::string")
    s = re.sub(r"\s+", " ", s).replace(" >", ">").replace("> >", ">>")
    return s.strip()


_dem_cache = {}


def demangle(names):
    need = [n for n in names if n not in _dem_cache]
    if need:
        p = subprocess.run(["c++filt"], input="\n".join(need) + "\n", capture_output=True, text=True)
        for n, d in zip(need, p.stdout.split("\n")):
            _dem_cache[n] = d.strip()
    return {n: _dem_cache[n] for n in names}


def _parse_concat(s):
    dec = json.JSONDecoder()
    i, objs = 0, []
    while True:
        i = s.find("{", i)
        if i < 0:
            break
        o, i = dec.raw_decode(s, i)
        objs.append(o)
    return objs


class _Loc:
    """Restores absolute file/line on every loc/range (clang omits them when unchanged)."""

    def __init__(self):
        self.file = None
        self.line = None

    def bare(self, l):
        if not isinstance(l, dict):
            return
        if "spellingLoc" in l or "expansionLoc" in l:
            # clang writes spellingLoc first, then expansionLoc
            for k in ("spellingLoc", "expansionLoc"):
                if k in l:
                    self.bare(l[k])
            e = l.get("expansionLoc", l.get("spellingLoc"))
            l["_file"], l["_line"] = e.get("_file"), e.get("_line")
            return
        if "file" in l:
            self.file = l["file"]
        if "line" in l:
            self.line = l["line"]
        if "offset" in l:
            l["_file"], l["_line"] = self.file, self.line

    def node(self, n):
        if "loc" in n:
            self.bare(n["loc"])
        r = n.get("range")
        if r:
            self.bare(r.get("begin"))
            self.bare(r.get("end"))
        for c in n.get("inner", []):
            if isinstance(c, dict):
                self.node(c)


def tu_path(tu):
    return os.path.join(SRC, tu)


def load_tu(tu):
    d = os.path.join(CACHE, "ast-" + tree_hash())
    os.makedirs(d, exist_ok=True)
    pk = os.path.join(d, tu.replace("/", "_") + ".pickle")
    if os.path.exists(pk):
        with open(pk, "rb") as f:
            return TU(tu, pickle.load(f))
    cmd = ["clang++", "-std=c++17", "-fsyntax-only", "-D" + GUARD, "-w"] + include_flags() + [
        "-Xclang", "-ast-dump=json", "-Xclang", "-ast-dump-filter=libcellml::", tu_path(tu)]
    rc, out, err, secs = run(cmd, timeout=600)
    if rc != 0:
        raise Undecided("extraction: clang could not read %s (rc=%s): %s" % (tu, rc, err[-2000:]))
    decls = _parse_concat(out)
    if not decls:
        raise Undecided("extraction: empty AST for %s" % tu)
    lo = _Loc()
    for x in decls:
        lo.node(x)
    with open(pk, "wb") as f:
        pickle.dump(decls, f, protocol=pickle.HIGHEST_PROTOCOL)
    log("  [ast] %s: %d decls, %.1fs" % (tu, len(decls), secs))
    prune_cache("ast-", 2)
    return TU(tu, decls)


_src_cache = {}


def source_text(path):
    if path not in _src_cache:
        with open(path, "rb") as f:
            data = f.read()
        _src_cache[path] = data
    return _src_cache[path]


def node_text(n):
    """Source text covered by node n (used only for diagnostics and for detecting an explicit
    `Base::` qualifier on a member call, which the JSON dump does not carry)."""
    r = n.get("range") or {}
    b, e = r.get("begin", {}), r.get("end", {})
    if "expansionLoc" in b:
        b = b["expansionLoc"]
    if "expansionLoc" in e:
        e = e["expansionLoc"]
    f = b.get("_file")
    if not f or "offset" not in b or "offset" not in e:
        return ""
    data = source_text(f)
    return data[b["offset"]: e["offset"] + e.get("tokLen", 1)].decode("utf-8", "replace")


def node_loc(n):
    r = n.get("range") or {}
    b = r.get("begin", {})
    if "expansionLoc" in b:
        b = b["expansionLoc"]
    return b.get("_file"), b.get("_line")
