#!/bin/sh
# Independent confirmation of the seeded changes (run by hand, not by a check): for each
# /verif/seeded/<id>/patch.diff, in a scratch worktree of /repo's HEAD outside /repo and /verif:
# apply, build, run the repository's test suite (must fail only the always_fail cases), build and
# run the demonstration on the clean and on the changed tree.  Results go to <id>/verify.txt.
set -u
WT=/tmp/wt_seeded_verify
rm -rf $WT; git -C /repo worktree prune; git -C /repo worktree add -q $WT HEAD || exit 2
cd $WT
CFG="-G Ninja -DLibXml2_DIR=/root/miniconda/lib/cmake/libxml2 -DLIBCELLML_BINDINGS_PYTHON=OFF -DLIBCELLML_COVERAGE=OFF -DLIBCELLML_MEMCHECK=OFF -DLIBCELLML_TREAT_WARNINGS_AS_ERRORS=OFF -DLIBCELLML_BUILD_TYPE=Release"
cmake -S . -B _build $CFG > /dev/null 2>&1
cmake --build _build -j16 > /dev/null 2>&1
LIB=$(ls _build/src/libcellml*.so | head -1); LNAME=$(basename $LIB .so | sed 's/^lib//')
LIST=""; if [ $# -gt 0 ]; then for a in "$@"; do LIST="$LIST /verif/seeded/$a"; done; else LIST=$(ls -d /verif/seeded/[CR]*_[mr]*); fi
for d in $LIST; do
  id=$(basename $d); out=$d/verify.txt; : > $out
  g++ -std=c++17 $d/demo.cpp -I src/api -I src/api/libcellml/module -I _build/src/api -L _build/src -l$LNAME -Wl,-rpath,$WT/_build/src -Wl,-rpath,/root/miniconda/lib -o /tmp/demo_clean_$id 2>>$out
  /tmp/demo_clean_$id > /tmp/demo_out 2>&1; echo "demo_on_clean_exit=$?" >> $out
  if git apply --3way $d/patch.diff 2>>$out || git apply $d/patch.diff 2>>$out; then echo "patch_applies=1" >> $out; else echo "patch_applies=0" >> $out; git checkout -q -- . ; git reset -q --hard HEAD; continue; fi
  git diff HEAD --stat | tail -1 >> $out
  if cmake --build _build -j16 > /tmp/build_out 2>&1; then echo "builds=1" >> $out; else echo "builds=0" >> $out; tail -5 /tmp/build_out >> $out; fi
  ctest --test-dir _build -j8 --timeout 600 > /tmp/ctest_out 2>&1
  ctest --test-dir _build --rerun-failed --output-on-failure 2>&1 | grep -E "^\[  FAILED  \] [A-Za-z]+\.[A-Za-z0-9_]+ \(" | sed 's/ (.*//' | sort -u | tr '\n' ' ' > /tmp/failed_cases
  echo "failing_cases=$(cat /tmp/failed_cases)" >> $out
  /tmp/demo_clean_$id > /tmp/demo_out2 2>&1; echo "demo_on_changed_exit=$?" >> $out   # same binary, now runs against the rebuilt (changed) shared library
  tail -3 /tmp/demo_out2 >> $out
  git reset -q --hard HEAD; git checkout -q -- .
  cmake --build _build -j16 > /dev/null 2>&1
  rm -f /tmp/demo_clean_$id
done
cd /; git -C /repo worktree remove --force $WT
