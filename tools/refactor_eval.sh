#!/bin/sh
# Behaviour-preserving refactorings (seeded/R*_r*): each is applied to a scratch worktree of
# /repo's HEAD (outside /repo and /verif) and EVERY registered quick check is run against that
# tree (VERIF_REPO / VERIF_CACHE / VERIF_OUTROOT redirected).  A correct machinery raises no
# VIOLATION on any of them.  Results: seeded/<id>/check_result.txt.  Not part of any check.
cd /verif
WT=/tmp/wt_refactor_eval; SC=/tmp/verif_refactor_scratch
rm -rf $WT $SC; git -C /repo worktree prune; git -C /repo worktree add -q $WT HEAD || exit 2
mkdir -p $SC
LIST=""; if [ $# -gt 0 ]; then for a in "$@"; do LIST="$LIST seeded/$a"; done; else LIST=$(ls -d seeded/R*_r*); fi
for d in $LIST; do
  id=$(basename $d)
  git -C $WT checkout -q -- . ; git -C $WT reset -q --hard HEAD
  if ! git -C $WT apply $PWD/$d/patch.diff 2>/dev/null; then echo "$id: patch does not apply" | tee $d/check_result.txt; continue; fi
  : > $d/check_result.txt
  # ALL=1: every check on every patch (done once, DESIGN 5); default: the checks whose translation units the patch touches, and C12 (whole library)
  FILES=$(grep '^+++ b/src/' $PWD/$d/patch.diff | sed 's|^+++ b/src/||' | tr '\n' ' ')
  SEL=""
  for prop in C09 C10 C11 C12 C13 C15 C16 C18 C19; do
    case $prop in
      C09) T="component.cpp componententity.cpp model.cpp variable.cpp parentedentity.cpp utilities.cpp units.cpp reset.cpp" ;;
      C10) T="entity.cpp namedentity.cpp importedentity.cpp parentedentity.cpp componententity.cpp variable.cpp reset.cpp units.cpp component.cpp model.cpp importsource.cpp utilities.cpp" ;;
      C11) T="entity.cpp namedentity.cpp importedentity.cpp parentedentity.cpp componententity.cpp variable.cpp reset.cpp units.cpp component.cpp model.cpp importsource.cpp utilities.cpp" ;;
      C12) T="ALWAYS" ;;
      C13) T="annotator.cpp utilities.cpp" ;;
      C15) T="logger.cpp issue.cpp importer.cpp annotator.cpp" ;;
      C16) T="utilities.cpp units.cpp validator.cpp analyser.cpp" ;;
      C18) T="analysermodel.cpp variable.cpp" ;;
      C19) T="utilities.cpp model.cpp variable.cpp validator.cpp parentedentity.cpp" ;;
    esac
    hit=0; [ "$T" = ALWAYS ] && hit=1; [ "${ALL:-0}" = 1 ] && hit=1
    for f in $FILES; do for t in $T; do [ "$f" = "$t" ] && hit=1; done; done
    [ $hit = 1 ] && SEL="$SEL $prop"
  done
  echo "files: $FILES -> checks:$SEL" >> $d/check_result.txt
  for prop in ${PROPS:-$SEL}; do
    start=$(date +%s)
    VERIF_REPO=$WT VERIF_CACHE=$SC/cache VERIF_OUTROOT=$SC timeout 2400 ./check $prop quick > $SC/out.txt 2>&1; rc=$?
    end=$(date +%s)
    { echo "check=$prop exit=$rc seconds=$((end-start)) violations=$(grep -c '^VIOLATION' $SC/out.txt)"; grep -E "^(VIOLATION|UNDECIDED)" $SC/out.txt | cut -c1-400 | head -5; grep -E "^   " $SC/out.txt | cut -c1-400 | head -4; } >> $d/check_result.txt
    echo "$id $prop: exit=$rc $(grep -c '^VIOLATION' $SC/out.txt) violation line(s)"
  done
done
git -C /repo worktree remove --force $WT; rm -rf $SC
