"""Effect slices: a second mechanical extraction from the typed clang AST (DESIGN 2.6).

For a typestate / frame obligation ("makeUniqueId is only reached with a complete id list",
"removeAllIssues precedes the first addIssue") the data a function computes is irrelevant; what
matters is WHICH effectful operations it performs, in which order, on which control-flow paths.
`slice_tu` lowers every function defined in a translation unit to a C function that keeps

  * the control-flow skeleton (if / loops / switch / return / break / continue), every condition
    replaced by a nondeterministic choice  -> a sound over-approximation of the paths,
  * calls to the *effect vocabulary* given by the spec: `E_<effect>()`, in evaluation order,
  * calls to other functions of the same TU that (transitively) perform effects: `S_<fn>()`,

and drops everything else (all data, all arguments).  The spec gives each effect a body over a
few ghost booleans and the obligations (assertions) it carries.  The abstract state is finite, so
unwinding loops/recursion further than the number of abstract states adds no new behaviour."""
import re

from cast import node_loc, node_text
from common import Undecided
from cxx2c import TRANSPARENT, _strip_casts, _strip_transparent, _walk, cident, norm_sig


class Vocabulary:
    """Maps AST call / assignment nodes to effect names.
    methods: {regex on the called member/function name -> effect}
    field_methods: {(field name, member name regex) -> effect}   e.g. ("mIdList", "insert")
    field_assign: {field name -> callable(rhs_node_text) -> effect}"""

    def __init__(self, methods=(), field_methods=(), field_assign=None, opaque=(), field_any=None, functions=None, read_only=()):
        self.read_only = set(read_only)  # effects that change no ghost state: a loop performing only these gets __LC_SLICE_RO (frame: nothing)
        self.field_any = field_any     # callable(field name, member name or "=") -> effect or None, for every data member
        self.functions = functions     # callable(function name) -> effect or None, for free/extern functions (e.g. libxml2)
        self.methods = [(re.compile(p), e) for p, e in methods]
        self.field_methods = [(f, re.compile(p), e) for f, p, e in field_methods]
        self.field_assign = field_assign or {}
        self.opaque = set(opaque)      # functions of the TU that are given as effects by the spec instead of being sliced


def _field_of(n):
    """If n (after transparent wrappers) is a member access to a data member, its name."""
    n = _strip_transparent(_strip_casts(n))
    if n.get("kind") == "MemberExpr" and "referencedMemberDecl" in n and not n.get("name", "").startswith("operator"):
        return n.get("name")
    return None


class Slicer:
    def __init__(self, tu, vocab, line_directives=True):
        self.tu = tu
        self.v = vocab
        self.line_directives = line_directives
        self.defs = {}       # cname -> decl (functions defined in this TU, libcellml only)
        self.by_id = {}      # decl id (any redeclaration) -> cname
        for sig, f in tu.funcs.items():
            if not sig.startswith("libcellml::") or ")::" in sig or "{lambda" in sig or re.search(r"\)( const)?::", sig):
                continue
            loc = node_loc(f)[0] or ""
            if not loc.endswith(tu.name):
                continue
            cn = "S_" + cident(norm_sig(sig).split("(")[0].replace("libcellml::", "", 1)) + self._suffix(sig)
            self.defs[cn] = f
        for cn, f in self.defs.items():
            self.by_id[f["id"]] = cn
            pid = f.get("previousDecl")
            hops = 0
            while pid and hops < 6:
                self.by_id[pid] = cn
                pid = (tu.by_id.get(pid) or {}).get("previousDecl")
                hops += 1
        self.effectful = None
        self.used_effects = set()

    def _suffix(self, sig):
        q = norm_sig(sig).split("(")[0]
        same = [s for s in self.tu.funcs if norm_sig(s).split("(")[0] == q and not re.search(r"\)( const)?::", s)]
        if len(same) <= 1:
            return ""
        args = norm_sig(sig)[len(q):]
        return "__" + re.sub(r"[^A-Za-z0-9]+", "_", args.replace("std::shared_ptr<libcellml::", "").replace("std::string", "str")
                             .replace("libcellml::", "").replace(" const&", "").replace(" const", "")).strip("_")

    # ---- which effects does a node perform, in evaluation order --------------------------------
    def effects_of_expr(self, n, out):
        k = n.get("kind")
        if k == "LambdaExpr":
            return      # a lambda's body runs where it is called (std algorithms): not followed
        inner = [c for c in n.get("inner", []) if isinstance(c, dict)]
        # assignment to a tracked field
        if k in ("BinaryOperator", "CompoundAssignOperator") and n.get("opcode", "").endswith("=") and n.get("opcode") not in ("==", "!=", "<=", ">="):
            f = _field_of(inner[0])
            self.effects_of_expr(inner[1], out)
            if f in self.v.field_assign:
                out.append(("E", self.v.field_assign[f](node_text(inner[1]))))
            elif f is not None and self.v.field_any and self.v.field_any(f, "=") and inner[0].get("kind") != "ParenExpr":
                out.append(("E", self.v.field_any(f, "=")))
            else:
                self.effects_of_expr(inner[0], out)
            return
        if k == "CXXOperatorCallExpr":
            cal = _strip_casts(inner[0])
            op = (cal.get("referencedDecl") or {}).get("name", "")
            if op == "operator=" and len(inner) == 3:
                f = _field_of(inner[1])
                self.effects_of_expr(inner[2], out)
                if f in self.v.field_assign:
                    out.append(("E", self.v.field_assign[f](node_text(inner[2]))))
                    return
                if f is not None and self.v.field_any and self.v.field_any(f, "="):
                    out.append(("E", self.v.field_any(f, "=")))
                    return
                self.effects_of_expr(inner[1], out)
                return
        if k in ("CallExpr", "CXXMemberCallExpr", "CXXOperatorCallExpr"):
            callee = _strip_casts(inner[0]) if inner else {}
            args = inner[1:]
            name, did, obj = "", None, None
            if callee.get("kind") == "MemberExpr":
                name = callee.get("name", "")
                did = callee.get("referencedMemberDecl")
                obj = callee["inner"][0] if callee.get("inner") else None
            elif callee.get("kind") == "DeclRefExpr":
                name = (callee.get("referencedDecl") or {}).get("name", "")
                did = (callee.get("referencedDecl") or {}).get("id")
            if obj is not None:
                self.effects_of_expr(obj, out)
            for a in args:
                self.effects_of_expr(a, out)
            # member call on a tracked field: mIdList.insert(...)
            if obj is not None:
                f = _field_of(obj)
                for fld, rx, eff in self.v.field_methods:
                    if f == fld and rx.fullmatch(name):
                        out.append(("E", eff))
                        return
                if f is not None and self.v.field_any:
                    e = self.v.field_any(f, name)
                    if e:
                        out.append(("E", e))
                        return
            if did in self.by_id:
                cn = self.by_id[did]
                if cn in self.v.opaque:
                    out.append(("E", cn[2:]))
                else:
                    out.append(("S", cn))
                return
            if self.v.functions and callee.get("kind") == "DeclRefExpr":
                e = self.v.functions(name, node_text(n))
                if e:
                    out.append(("E", e))
                    return
            for rx, eff in self.v.methods:
                if rx.fullmatch(name):
                    out.append(("E", eff(node_text(n)) if callable(eff) else eff))
                    return
            return
        for c in inner:
            self.effects_of_expr(c, out)

    # ---- statements -----------------------------------------------------------------------------
    def line(self, n):
        if not self.line_directives:
            return ""
        f, l = node_loc(n)
        return '#line %d "%s"\n' % (l, f) if f and l else ""

    def emit_effects(self, n, d):
        out = []
        self.effects_of_expr(n, out)
        s = ""
        for kind, name in out:
            if kind == "S" and self.effectful is not None and name not in self.effectful:
                continue
            if kind == "E":
                self.used_effects.add(name)
            if kind == "S" and name == getattr(self, "current", None):
                # direct recursion: the function's own summary (checked for the function itself)
                self.recursive.add(name)
                s += self.line(n) + "    " * d + "SLICE_REC_SUMMARY();\n"
                continue
            s += self.line(n) + "    " * d + ("E_%s();\n" % name if kind == "E" else "%s();\n" % name)
        return s

    def stmt(self, n, d):
        if n is None or not isinstance(n, dict) or not n.get("kind"):
            return ""
        k = n["kind"]
        I = "    " * d
        inner = [c for c in n.get("inner", [])]
        if k == "CompoundStmt":
            return I + "{\n" + "".join(self.stmt(c, d + 1) for c in inner if isinstance(c, dict)) + I + "}\n"
        if k == "IfStmt":
            cs = [c for c in inner if isinstance(c, dict)]
            s = self.emit_effects(cs[0], d)
            s += I + "if (nondet_bool())\n" + self.block(cs[1], d)
            if len(cs) > 2:
                s += I + "else\n" + self.block(cs[2], d)
            return s
        if k in ("ForStmt", "WhileStmt", "DoStmt", "CXXForRangeStmt"):
            parts = [c for c in inner if isinstance(c, dict) and c.get("kind")]
            body = parts[-1] if k != "DoStmt" else parts[0]
            heads = parts[:-1] if k != "DoStmt" else parts[1:]
            s = ""
            hs = "".join(self.emit_effects(h, d + 1) for h in heads)
            lc = "__LC_SLICE"
            if self.v.read_only and getattr(self, "trans", None) is not None:
                out = []
                self.effects_of_expr(n, out)
                es = set()
                for kind, name in out:
                    if kind == "E":
                        es.add(name)
                    elif self.effectful is None or name in self.effectful:
                        es |= self.trans.get(name, {"?"})
                if es <= self.v.read_only:
                    lc = "__LC_SLICE_RO"      # the loop performs only effects that change nothing
            s += I + "while (nondet_bool())\n" + I + lc + "\n" + I + "{\n" + hs + self.stmt(body, d + 1) + I + "}\n"
            return hs.replace("    " * (d + 1), I, 1) * 0 + s
        if k == "SwitchStmt":
            cs = [c for c in inner if isinstance(c, dict)]
            s = self.emit_effects(cs[-2], d)
            body = cs[-1]
            self._case = getattr(self, "_case", 0)
            s += I + "switch (nondet_int())\n" + self.stmt(body, d)
            return s
        if k == "CaseStmt":
            self._case = getattr(self, "_case", 0) + 1
            cs = [c for c in inner if isinstance(c, dict)]
            return I + "case %d:\n" % self._case + self.stmt(cs[-1], d + 1)
        if k == "DefaultStmt":
            return I + "default:\n" + self.stmt(inner[-1], d + 1)
        if k == "ReturnStmt":
            s = "".join(self.emit_effects(c, d) for c in inner if isinstance(c, dict))
            return s + I + "return;\n"
        if k == "BreakStmt":
            return I + "break;\n"
        if k == "ContinueStmt":
            return I + "continue;\n"
        if k == "CXXTryStmt":
            return "".join(self.stmt(c, d) for c in inner if isinstance(c, dict))
        if k == "CXXCatchStmt":
            return I + "if (nondet_bool())\n" + self.block(inner[-1], d)
        if k == "DeclStmt":
            return "".join(self.emit_effects(c, d) for c in inner if isinstance(c, dict))
        if k in ("NullStmt",):
            return ""
        return self.emit_effects(n, d)

    def block(self, n, d):
        if n.get("kind") == "CompoundStmt":
            return self.stmt(n, d)
        return "    " * d + "{\n" + self.stmt(n, d + 1) + "    " * d + "}\n"

    # ---- whole TU -------------------------------------------------------------------------------
    def run(self):
        # 1. which functions perform effects (directly or through callees of this TU)?
        direct, calls = {}, {}
        for cn, f in self.defs.items():
            out = []
            body = [c for c in f.get("inner", []) if isinstance(c, dict) and c.get("kind") == "CompoundStmt"]
            inits = [c for c in f.get("inner", []) if isinstance(c, dict) and c.get("kind") == "CXXCtorInitializer"]
            for b in body + inits:
                self.effects_of_expr(b, out)
            direct[cn] = any(kind == "E" for kind, _ in out)
            calls[cn] = set(name for kind, name in out if kind == "S")
            dset = getattr(self, "_dset", {})
            dset[cn] = set(name for kind, name in out if kind == "E")
            self._dset = dset
        eff = set(cn for cn, v in direct.items() if v)
        changed = True
        while changed:
            changed = False
            for cn in self.defs:
                if cn not in eff and calls[cn] & eff:
                    eff.add(cn)
                    changed = True
        self.effectful = eff
        # transitive effect sets (for read-only loops)
        self.trans = {cn: set(v) for cn, v in self._dset.items()}
        for cn in self.v.opaque:
            self.trans[cn] = {cn[2:] if cn.startswith("S_") else cn}
        changed = True
        while changed:
            changed = False
            for cn in self.defs:
                if cn in self.v.opaque:
                    continue
                add = set()
                for c in calls[cn]:
                    add |= self.trans.get(c, set())
                if not add <= self.trans[cn]:
                    self.trans[cn] |= add
                    changed = True
        # 2. emit
        self.used_effects = set()
        self.recursive = set()
        protos, bodies = [], []
        for cn in sorted(self.defs):
            if cn not in eff or cn in self.v.opaque:
                continue
            f = self.defs[cn]
            body = [c for c in f.get("inner", []) if isinstance(c, dict) and c.get("kind") == "CompoundStmt"][0]
            self._case = 0
            self.current = cn
            protos.append("void %s(void);" % cn)
            bodies.append("%s/* slice of %s */\nvoid %s(void)\n%s" % (self.line(f), norm_sig(f["_sig"]), cn, self.stmt(body, 0)))
        text = "/* effect slices generated from the clang AST of /repo - do not edit */\n" + "\n".join(protos) + "\n" + "\n".join(bodies)
        self.current = None
        return text, sorted(eff), sorted(self.used_effects)
