#!/usr/bin/env python3
"""MANIFEST.setup_cmd: offline preparation after a fresh restore - verify the tools, warm the
caches (AST dumps of the TUs the checks lower, static library of the real code)."""
import os
import shutil
import sys

sys.path.insert(0, os.path.dirname(os.path.abspath(__file__)))
from common import CACHE, VERIF, Undecided, log

missing = [t for t in ("cbmc", "goto-cc", "goto-instrument", "clang++", "g++", "gcc", "c++filt", "ar") if not shutil.which(t)]
if missing:
    print("missing tools: %s" % missing)
    sys.exit(1)
for d in ("evidence", "out", ".cache"):
    os.makedirs(os.path.join(VERIF, d), exist_ok=True)
try:
    import nativelib
    lib = nativelib.build()
    print("native library:", lib)
    import cast
    from concurrent.futures import ThreadPoolExecutor
    tus = ["utilities.cpp"]
    extra = os.path.join(VERIF, "tools", "tus.txt")
    if os.path.exists(extra):
        tus = [l.strip() for l in open(extra) if l.strip()]
    with ThreadPoolExecutor(max_workers=8) as ex:
        list(ex.map(cast.load_tu, tus))
    print("AST cache warmed for", tus)
except Undecided as e:
    print("setup could not pre-build (checks will retry):", e)
sys.exit(0)
