"""cxx2c - mechanical lowering of selected libCellML C++ functions to C, from clang's typed AST.

Nothing here knows what a function is *supposed* to do: each C++ construct of a stated subset
is mapped to one C construct (see DESIGN.md 2.1); anything outside the subset raises
Undecided (exit 2), never a silent skip.  The lowered text keeps statement structure and
identifiers, and carries #line directives back to /repo/src.

Conventions of the emitted C
  * shared_ptr/weak_ptr/raw pointer to a libCellML class  ->  `ref` (object id, 0 = nullptr)
  * data members of *Impl records  ->  global arrays  F_<Record>_<field>[ref]
  * std::string / std::vector / std::pair / std::map      ->  model types from /verif/models
  * `const T &` parameters of model type are passed by value (a copy of a const object is
    indistinguishable), `T &` parameters become `T *`
  * every function gets the contract macro  __FC_<name>  after its declarator and every loop
    the macro  __LC_<name>_<ordinal>  after its header; the spec header defines them
  * calls to libCellML functions that are not lowered in this unit stay calls to a prototype:
    the spec provides their contract (replaced at call sites) or an exact body
"""
import re

from cast import node_loc, node_text
from common import Undecided

# --------------------------------------------------------------------------------------------
# type mapping

STD_STREAMS = {"std::ifstream", "std::ofstream", "std::fstream", "std::stringstream", "std::istringstream", "std::ostringstream",
               "std::basic_ios<char>", "std::basic_ostream<char>", "std::basic_istream<char>"}
STD_STRING = ("std::basic_string<char>", "std::string", "std::__cxx11::basic_string<char>",
              "std::basic_string<char, std::char_traits<char>, std::allocator<char>>")

SCALARS = {
    "bool": "bool", "char": "char", "signed char": "signed char", "unsigned char": "unsigned char",
    "short": "short", "unsigned short": "unsigned short",
    "int": "int", "unsigned int": "unsigned int", "long": "long", "unsigned long": "size_t",
    "long long": "long long", "unsigned long long": "unsigned long long",
    "double": "double", "float": "float", "void": "void", "size_t": "size_t",
    "std::size_t": "size_t", "ptrdiff_t": "ptrdiff_t", "std::ptrdiff_t": "ptrdiff_t",
    "uintptr_t": "size_t", "uint64_t": "size_t", "std::nullptr_t": "ref",
    "std::vector::size_type": "size_t", "std::basic_string<char>::size_type": "size_t",
}

ABBR = {"size_t": "sz", "bool": "b", "char": "c", "int": "i", "double": "d", "ref": "ref",
        "vstr": "s", "sid": "s", "uintptr_t": "up", "uint64_t": "u64", "unsigned int": "u",
        "long": "l", "ptrdiff_t": "pd"}


def _strip(t):
    t = t.strip()
    changed = True
    while changed:
        changed = False
        for pre in ("const ", "volatile ", "class ", "struct ", "enum ", "typename "):
            if t.startswith(pre):
                t = t[len(pre):].strip()
                changed = True
        for suf in (" const", "&&", "&", " volatile"):
            if t.endswith(suf):
                t = t[:-len(suf)].strip()
                changed = True
        if t.endswith("*const"):
            t = t[:-5].strip()
            changed = True
    return t


def split_targs(t):
    """'std::map<K, V<..>>' -> ('std::map', ['K', 'V<..>'])"""
    i = t.find("<")
    if i < 0 or not t.endswith(">"):
        return t, []
    head, body = t[:i], t[i + 1:-1]
    args, depth, cur = [], 0, ""
    for ch in body:
        if ch == "<" or ch == "(":
            depth += 1
        elif ch == ">" or ch == ")":
            depth -= 1
        if ch == "," and depth == 0:
            args.append(cur.strip())
            cur = ""
        else:
            cur += ch
    if cur.strip():
        args.append(cur.strip())
    return head, args


class Types:
    def __init__(self, string_model="vstr"):
        self.STR = string_model
        self.used = {}        # C type name -> declaration macro line
        self.elem = {}        # container C type -> element C type (maps: the pair type)
        self.enums = {}       # qualified enum name -> True
        self.aliases = {}     # alias name (unqualified and libcellml::-qualified) -> aliased type spelling
        self.records = set()  # names of libCellML records, with and without the namespace
        self.value_records = {}   # C struct name -> qualified record name (records used by value)

    def is_ref_or_ptr(self, t):
        t = _strip(t)
        return t.endswith("*")

    def qt(self, tnode):
        if isinstance(tnode, str):
            return tnode
        return tnode.get("desugaredQualType") or tnode.get("qualType")

    def is_lref(self, tnode):
        q = tnode.get("qualType", "") if isinstance(tnode, dict) else tnode
        return q.rstrip().endswith("&") and not q.rstrip().endswith("&&")

    def is_const_lref(self, tnode):
        q = tnode.get("qualType", "") if isinstance(tnode, dict) else tnode
        d = tnode.get("desugaredQualType", q) if isinstance(tnode, dict) else q
        return self.is_lref(tnode) and (q.startswith("const ") or d.startswith("const ") or " const &" in q)

    def ctype(self, tnode, where=None):
        q = self.qt(tnode)
        c = self._ctype(q)
        if c is None and isinstance(tnode, dict) and "qualType" in tnode:
            c = self._ctype(tnode["qualType"])
        if c is None and isinstance(tnode, dict) and "qualType" in tnode:
            # `auto` deduced to an iterator: the sugar is lost, recover the container from
            # __normal_iterator<T*, Container> (handled above) - tree iterators need the sugar
            pass
        if c is None:
            raise Undecided("extraction: type not in the supported subset: '%s'%s" % (q, " at %s" % (where,) if where else ""))
        return c

    def _ctype(self, q):
        t = _strip(q)
        if t in SCALARS:
            return SCALARS[t]
        if t in STD_STRING or t.startswith("std::basic_string<char"):
            return self.STR
        if t in STD_STREAMS or re.match(r"std::basic_(i|o|io|if|of|f|stringst|istringst|ostringst)(stream|ream|buf|filebuf|streambuf)?<char", t):
            # file / string streams: an opaque environment value (models/base.h: vstream) - whether the
            # file opens and what it contains are unconstrained
            return "vstream"
        if t.endswith("*"):
            inner = _strip(t[:-1])
            if re.match(r"std::basic_(streambuf|filebuf|stringbuf)<char", inner) or inner.endswith("::__filebuf_type") or inner.endswith("::__streambuf_type"):
                return "vstream"
            if inner.startswith("libcellml::") and inner not in self.aliases:
                return "ref"
            if inner in self.records:
                return "ref"
            if re.match(r"std::(__)?shared_ptr<.*>::element_type$", inner):
                return "ref"
            if inner.startswith("std::enable_shared_from_this<"):
                return "ref"       # `this` seen through its enable_shared_from_this base
            ic = self._ctype(inner)
            return None if ic is None else ic + " *"
        head, args = split_targs(t)
        if head in ("std::shared_ptr", "std::weak_ptr", "std::__shared_ptr", "std::__weak_ptr",
                    "std::enable_shared_from_this", "std::__shared_ptr_access") and args:
            return "ref"
        if head in ("std::vector",) and args:
            e = self._ctype(args[0])
            if e is None:
                return None
            r = self._inst("vvec", [e])
            self.elem[r] = e
            return r
        if head in ("std::pair",) and len(args) == 2:
            a, b = self._ctype(args[0]), self._ctype(args[1])
            if a is None or b is None:
                return None
            return self._inst("vpair", [a, b])
        if head in ("std::map", "std::unordered_map") and len(args) >= 2:
            a, b = self._ctype(args[0]), self._ctype(args[1])
            if a is None or b is None:
                return None
            pr = self._inst("vpair", [a, b])
            r = self._inst("vmap", [a, b])
            self.elem[r] = pr
            return r
        if head in ("std::set", "std::unordered_set", "std::multiset", "std::multimap") and args:
            # std::multimap<K, V> is lowered KEYS ONLY (the set of keys present); the mapped values are dropped
            # (used for the annotator's id index, whose completeness is a statement about its keys)
            a = self._ctype(args[0])
            if a is None:
                return None
            r = self._inst("vset", [a])
            self.elem[r] = a
            return r
        if head == "__gnu_cxx::__normal_iterator" and args:
            # iterator over vector<T> or string: a (container pointer, position) pair
            cont = _strip(args[1]) if len(args) > 1 else ""
            cc = self._ctype(cont)
            if cc is None:
                return None
            return self._inst_iter(cc)
        m = re.match(r"(.*)::(const_iterator|iterator|const_reverse_iterator|reverse_iterator)$", t)
        if m:
            cc = self._ctype(m.group(1))
            if cc is None:
                return None
            return self._inst_iter(cc)
        if head in ("std::_Rb_tree_const_iterator", "std::_Rb_tree_iterator", "std::__detail::_Node_iterator",
                    "std::__detail::_Node_const_iterator") and args:
            # `auto it = m.find(k)`: the sugar is gone; pair<const K, V> nodes belong to a map
            ph, pa = split_targs(_strip(args[0]))
            if ph == "std::pair" and len(pa) == 2 and pa[0].strip().startswith("const "):
                cc = self._ctype("std::map<%s, %s>" % (_strip(pa[0]), pa[1]))
            else:
                cc = self._ctype("std::set<%s>" % args[0])
            if cc is None:
                return None
            return self._inst_iter(cc)
        if t in self.enums or ("libcellml::" + t) in self.enums:
            return "int"
        if t in self.aliases:
            return self._ctype(self.aliases[t])
        if t.startswith("libcellml::"):
            if t in self.enums:
                return "int"
            if t[len("libcellml::"):] in self.aliases:
                return self._ctype(self.aliases[t[len("libcellml::"):]])
        if t in self.records and not t.endswith("Impl"):
            # a libCellML record used BY VALUE (heap objects are only ever reached through
            # pointers): a plain C struct with the same fields
            q = t if t.startswith("libcellml::") else "libcellml::" + t
            cn = cident(q[len("libcellml::"):])
            self.value_records[cn] = q
            return cn
        return None

    def abbr(self, c):
        c = c.strip()
        if c in ABBR:
            return ABBR[c]
        return re.sub(r"[^A-Za-z0-9]+", "_", c).strip("_")

    def _inst(self, fam, elems):
        name = fam + "_" + "_".join(self.abbr(e) for e in elems)
        self.used.setdefault(name, "%s_DECL(%s, %s)" % (fam.upper(), name, ", ".join(elems)))
        if fam == "vmap":
            self.used[name] = "VMAP_DECL(%s, %s, %s, %s)" % (name, elems[0], elems[1], "vpair_" + "_".join(self.abbr(e) for e in elems))
        return name

    def _inst_iter(self, cc):
        name = "vit_" + self.abbr(cc)
        fam = cc.split("_")[0].upper() if cc.startswith(("vvec_", "vset_", "vmap_")) else "VSTR"
        self.used.setdefault(name, "VIT_DECL(%s, %s)\n%s_IT_OPS(%s, %s)" % (name, cc, fam, cc, name))
        return name


# --------------------------------------------------------------------------------------------

class Lowered:
    def __init__(self):
        self.name = None
        self.sig = None
        self.text = ""
        self.proto = ""
        self.loops = 0
        self.calls = {}
        self.file = None
        self.line0 = None
        self.line1 = None


class Unit:
    """Lowers a set of functions from one or more TUs into one C text."""

    def __init__(self, string_model="vstr", line_directives=True):
        self.types = Types(string_model)
        self.funcs = {}           # cname -> Lowered
        self.protos = {}          # cname -> prototype text (all referenced libcellml functions)
        self.fields = {}          # F_name -> C type
        self.enumerators = {}     # C constant -> value
        self.globals_ = {}        # lowered global tables
        self.helpers = []         # generated helper functions (lambdas, algorithm loops)
        self.helper_protos = []
        self.overloads = {}       # qualified name -> set of signatures
        self.line_directives = line_directives
        self.sig2cname = {}
        self.tus = []
        self.lowered_ids = set()
        self.strings = {}
        self.used_enumerators = {}
        self.global_decls = {}    # name -> top-level VarDecl
        self.field_decls = {}     # F_name -> FieldDecl
        self.rec_stubs = set()    # functions whose self-recursive calls go to the contract stub <name>__rec
        self.sid_lits = {}        # literal text -> id
        self.proto_sig = {}       # cname of a referenced (not lowered) function -> demangled signature

    # ---- naming ---------------------------------------------------------------------------
    def add_tu(self, tu):
        self.tus.append(tu)
        for f in tu.func_by_id.values():
            s = f.get("_sig")
            if s:
                q = s.split("(")[0].replace("[abi:cxx11]", "")
                self.overloads.setdefault(q, set()).add(norm_sig(s))
        for q in tu.records.values():
            self.types.records.add(q)
            if q.startswith("libcellml::"):
                self.types.records.add(q[len("libcellml::"):])
        for d in tu.decls:
            self._collect_enums(d, ["libcellml"])
            if d.get("kind") in ("TypeAliasDecl", "TypedefDecl") and d.get("name"):
                ty = d.get("type", {})
                self.types.aliases.setdefault(d["name"], ty.get("desugaredQualType") or ty.get("qualType"))
                self.types.aliases.setdefault("libcellml::" + d["name"], ty.get("desugaredQualType") or ty.get("qualType"))
            if d.get("kind") == "VarDecl" and d.get("name"):
                d["_global"] = True
                self.global_decls.setdefault(d["name"], d)

    def _collect_enums(self, n, scope):
        k = n.get("kind")
        if k == "EnumDecl" and n.get("name"):
            q = "::".join(scope + [n["name"]])
            self.types.enums[q] = True
            val = -1
            for c in n.get("inner", []):
                if c.get("kind") == "EnumConstantDecl":
                    v = _enum_value(c)
                    val = v if v is not None else val + 1
                    cn = cident("::".join(scope[1:] + [n["name"], c["name"]]))
                    self.enumerators[cn] = val
                    c["_cname"] = cn
            return
        if k in ("CXXRecordDecl",) and n.get("name"):
            for c in n.get("inner", []):
                self._collect_enums(c, scope + [n["name"]])
        elif k == "NamespaceDecl":
            for c in n.get("inner", []):
                self._collect_enums(c, scope + [n.get("name", "")])

    def cname_for(self, fdecl):
        s = fdecl.get("_sig")
        if not s:
            raise Undecided("extraction: function without mangled name: %s" % fdecl.get("name"))
        ns = norm_sig(s)
        if ns in self.sig2cname:
            return self.sig2cname[ns]
        q = ns.split("(")[0]
        base = cident(q.replace("libcellml::", "", 1))
        sigs = self.overloads.get(q, {ns})
        if len(sigs) > 1:
            # overloaded: suffix with abbreviated parameter types (from the decl's own params)
            ps = [c for c in fdecl.get("inner", []) if c.get("kind") == "ParmVarDecl"]
            ab = []
            for p in ps:
                try:
                    ab.append(self.types.abbr(self.types.ctype(p["type"])))
                except Undecided:
                    ab.append("x")
            base += "__" + "_".join(ab) if ab else "__void"
            if ns.endswith(" const") and any(o != ns and o == ns[:-6] for o in sigs):
                base += "_c"
        self.sig2cname[ns] = base
        return base

    def heap_tools(self):
        """heap_alloc(kind): a FRESH object whose fields have the defaults of the *Impl records
        (in-class member initialisers from the AST, else zero/empty) - the contract of create();
        heap_snapshot()/heap_same_at(k): the frame `object k is unchanged`."""
        t = ["#ifdef HEAP_TOOLS", "ref __next_free;", "static inline ref heap_alloc(unsigned char kind)", "{",
             "    ref r = __next_free;", "    MODEL_BOUND(r != 0 && r < HEAP_N);", "    __next_free = r + 1;", "    __kind[r] = kind;"]
        for f in sorted(self.fields):
            ct = self.fields[f]
            fd = self.field_decls.get(f)
            ini = [c for c in (fd or {}).get("inner", []) if isinstance(c, dict) and c.get("kind") and "Comment" not in c.get("kind")]
            if ini:
                fl = FunctionLowerer(self, self.tus[0], {"kind": "FunctionDecl", "inner": [], "name": "heap_alloc"})
                fl.cname = "heap_alloc"
                val = fl.expr(ini[0])
            elif ct in SCALARS.values() or ct in ("ref", "int", "sid") or ct.endswith("*"):
                val = "0"
            else:
                val = "%s_new()" % ct
            t.append("    %s[r] = %s;" % (f, val))
        t += ["    return r;", "}"]
        for f in sorted(self.fields):
            t.append("%s S_%s[HEAP_N];" % (self.fields[f], f))
        t += ["static inline void heap_snapshot(void)", "{", "    for (unsigned k = 0; k < HEAP_N; ++k) {"]
        for f in sorted(self.fields):
            t.append("        S_%s[k] = %s[k];" % (f, f))
        t += ["    }", "}", "static inline bool heap_same_at(ref k)", "{", "    return 1"]
        for f in sorted(self.fields):
            ct = self.fields[f]
            t.append("        && %s_keyeq(S_%s[k], %s[k])" % (ct if " " not in ct else "int", f, f))
        t += ["        ;", "}", "#endif"]
        return "\n".join(t)

    def sid_literal(self, lit):
        """String literals under the identity model: the empty string is 0, every other distinct
        literal text gets its own small id (symbolic strings may coincide with any of them)."""
        if lit in ('""',):
            return "((sid)0)"
        if lit not in self.sid_lits:
            self.sid_lits[lit] = len(self.sid_lits) + 1
        return "SIDLIT_%d" % self.sid_lits[lit]

    def value_struct_decls(self):
        """C struct definitions for records used by value, keyed by the model type after which
        they must be emitted (their field types must exist first; container-of-struct
        instantiations must come after)."""
        res = {}
        done = set()
        order = list(self.types.used.keys())
        for cn, q in list(self.types.value_records.items()):
            rec = None
            for tu in self.tus:
                for rid, rq in tu.records.items():
                    if rq == q and tu.by_id[rid].get("completeDefinition"):
                        rec = tu.by_id[rid]
            if rec is None:
                raise Undecided("extraction: record %s used by value has no visible definition" % q)
            fields = []
            for f in _record_fields(rec):
                fields.append("    %s %s;" % (self.types.ctype(f["type"], where=f["name"]), f["name"]))
            eqs = " && ".join("%s_keyeq(a.%s, b.%s)" % (self.types.ctype(f["type"]), f["name"], f["name"]) for f in _record_fields(rec)) or "1"
            inits = []
            for f in _record_fields(rec):
                fct = self.types.ctype(f["type"])
                ini = [c for c in f.get("inner", []) if isinstance(c, dict) and c.get("kind") and "Comment" not in c.get("kind")]
                if ini:
                    fl = FunctionLowerer(self, self.tus[0], {"kind": "FunctionDecl", "inner": [], "name": cn + "_new"})
                    fl.cname = cn + "_new"
                    val = fl.expr(ini[0])
                elif fct in SCALARS.values() or fct in ("ref", "int") or fct.endswith("*"):
                    val = "0"
                else:
                    val = "%s_new()" % fct
                inits.append("    r.%s = %s;" % (f["name"], val))
            txt = ("typedef struct\n{\n%s\n} %s;\nstatic inline bool %s_keyeq(%s a, %s b) { return %s; }\n"
                   "static inline %s %s_new(void)\n{\n    %s r;\n%s\n    return r;\n}") % (
                "\n".join(fields), cn, cn, cn, cn, eqs, cn, cn, cn, "\n".join(inits))
            # emit before the first model type that mentions the struct
            anchor = None
            prev = None
            for name in order:
                if cn in self.types.used[name].split("(", 1)[1]:
                    anchor = prev
                    break
                prev = name
            res.setdefault(anchor if anchor is not None else (order[-1] if order and anchor is None and not any(cn in self.types.used[n] for n in order) else "__first__"), []).append(txt)
        return res

    # ---- entry ----------------------------------------------------------------------------
    def lower_function(self, tu, sig):
        f = tu.find(sig) if isinstance(sig, str) else sig
        fl = FunctionLowerer(self, tu, f)
        lo = fl.run()
        self.funcs[lo.name] = lo
        self.lowered_ids.add(f["id"])
        return lo

    def emit(self):
        out = []
        out.append("/* generated by cxx2c from the clang AST of /repo's working tree - do not edit */")
        for cn, v in sorted(self.enumerators.items(), key=lambda kv: (kv[0].rsplit('_', 1)[0], kv[1])):
            if cn in self.used_enumerators:
                out.append("#define %s %d" % (cn, v))
        for lit, k in sorted(self.sid_lits.items(), key=lambda kv: kv[1]):
            out.append("#define SIDLIT_%d ((sid)%d) /* %s */" % (k, k, lit.replace("*/", "* /")))
        vs = self.value_struct_decls()
        for sd in vs.pop("__first__", []):
            out.append(sd)
        for name, decl in self.types.used.items():
            out.append(decl)
            for sd in vs.pop(name, []):
                out.append(sd)
        for rest in vs.values():
            out.extend(rest)
        for fname, ct in sorted(self.fields.items()):
            out.append("HEAP_FIELD(%s, %s)" % (ct, fname))
        # every object field starts unconstrained in a modular harness: scalar fields are havocked
        # wholesale; container fields get an arbitrary length and a NULL buffer (the contract's
        # is_fresh clauses allocate the buffers that are used)
        hv = ["static inline void havoc_heap(void)", "{", "#ifdef CBMC"]
        for f in sorted(self.fields):
            ct = self.fields[f]
            if ct.startswith(("vvec_", "vmap_", "vset_")):
                hv.append("    HAVOC_CONTAINER_FIELD(%s, %s);" % (f, ct))
            else:
                hv.append("    HAVOC_SCALAR_FIELD(%s, %s, %s);" % (f, ct, self.types.abbr(ct)))
                if ct == "ref":
                    # an object id is null or names an object of the harness's universe
                    hv.append("    for (unsigned k = 0; k < HEAP_N; ++k) __CPROVER_assume(%s[k] < HEAP_N);" % f)
        # which objects are still alive (what weak_ptr::lock() sees) is arbitrary too; a harness fixes it afterwards where it matters
        hv.append("    for (unsigned k = 0; k < HEAP_N; ++k) __alive[k] = nondet_bool();")
        hv += ["#endif", "}"]
        out.append("\n".join(hv))
        out.append(self.heap_tools())
        for g in self.globals_.values():
            out.append(g)
        for cn, p in sorted(self.protos.items()):
            # a contract may be attached once: on the definition when the function is lowered
            # in this unit, on the prototype when it is a stub
            out.append(p.split("\n")[0] + ";" if cn in self.funcs else p)
        for p in self.helper_protos:
            out.append(p)
        for h in self.helpers:
            out.append(h)
        for lo in self.funcs.values():
            out.append(lo.text)
        return "\n".join(out) + "\n"


def _record_fields(rec):
    return [c for c in rec.get("inner", []) if c.get("kind") == "FieldDecl"]


def _enum_value(c):
    for x in c.get("inner", []):
        if x.get("kind") == "ConstantExpr" and "value" in x:
            return int(x["value"])
        if x.get("kind") == "IntegerLiteral":
            return int(x["value"])
        if x.get("kind") in ("ImplicitCastExpr", "ConstantExpr"):
            v = _enum_value(x)
            if v is not None:
                return v
    return None


def cident(q):
    return re.sub(r"[^A-Za-z0-9_]", "_", q.replace("::", "_"))


def norm_sig(s):
    s = s.replace("[abi:cxx11]", "")
    s = s.replace("std::__cxx11::basic_string<char, std::char_traits<char>, std::allocator<char> >", "std::string")
    # drop default allocator / comparator arguments
    prev = None
    while prev != s:
        prev = s
        s = re.sub(r", std::allocator<[^<>]*(?:<[^<>]*(?:<[^<>]*>[^<>]*)*>[^<>]*)*>\s*", "", s)
        s = re.sub(r", std::less<[^<>]*(?:<[^<>]*>[^<>]*)*>\s*", "", s)
        s = re.sub(r", std::hash<[^<>]*>\s*", "", s)
        s = re.sub(r", std::equal_to<[^<>]*>\s*", "", s)
    s = s.replace(" >", ">")
    return s


# --------------------------------------------------------------------------------------------

TRANSPARENT = ("ExprWithCleanups", "CXXBindTemporaryExpr", "MaterializeTemporaryExpr", "ConstantExpr",
               "SubstNonTypeTemplateParmExpr")

BINOPS = {"+", "-", "*", "/", "%", "<", ">", "<=", ">=", "==", "!=", "&&", "||", "&", "|", "^", "<<", ">>", "=", ","}


def _find_make_pair(n):
    """the std::make_pair call inside an argument expression (through conversions and temporaries)"""
    if not isinstance(n, dict):
        return None
    if n.get("kind") == "CallExpr" and n.get("inner"):
        c = _strip_casts(n["inner"][0])
        if (c.get("referencedDecl") or {}).get("name") == "make_pair":
            return n
    for k in n.get("inner", []) or []:
        r = _find_make_pair(k)
        if r is not None:
            return r
    return None


class FunctionLowerer:
    def __init__(self, unit, tu, fdecl, parent=None):
        self.u = unit
        self.tu = tu
        self.f = fdecl
        self.T = unit.types
        self.tmp = 0
        self.loops = 0
        self.calls = {}
        self.ptr_vars = set()   # ids of locals/params lowered to pointers (C++ non-const references)
        self.parent = parent
        self.is_method = fdecl.get("kind") in ("CXXMethodDecl",) and not self._is_static(fdecl)
        self.cname = unit.cname_for(fdecl) if fdecl.get("mangledName") else None
        self.renames = {}       # decl id -> C identifier

    def _is_static(self, fdecl):
        d, hops = fdecl, 0
        while d is not None and hops < 8:
            if d.get("storageClass") == "static":
                return True
            pid = d.get("previousDecl")
            d = None
            if pid:
                for tu in self.u.tus:
                    if pid in tu.by_id:
                        d = tu.by_id[pid]
                        break
            hops += 1
        return False

    # ---- diagnostics ----------------------------------------------------------------------
    def bad(self, n, why):
        f, l = node_loc(n)
        raise Undecided("extraction: %s: unsupported construct %s (%s) at %s:%s: `%s`" % (
            self.cname, n.get("kind"), why, f, l, node_text(n)[:120].replace("\n", " ")))

    def line(self, n):
        if not self.u.line_directives:
            return ""
        f, l = node_loc(n)
        if f and l:
            return '#line %d "%s"\n' % (l, f)
        return ""

    def note_call(self, name):
        self.calls[name] = self.calls.get(name, 0) + 1

    def newtmp(self, base="t"):
        self.tmp += 1
        return "__%s%d" % (base, self.tmp)

    # ---- function -------------------------------------------------------------------------
    def params(self):
        ps = []
        if self.is_method:
            ps.append(("ref", "self"))
        for p in self.f.get("inner", []):
            if p.get("kind") != "ParmVarDecl":
                continue
            name = p.get("name") or self.newtmp("unnamed")
            ct = self.param_ctype(p)
            ps.append((ct, name))
        return ps

    def param_ctype(self, p):
        ct = self.T.ctype(p["type"], where=p.get("name"))
        if self.T.is_lref(p["type"]) and not self.T.is_const_lref(p["type"]):
            self.ptr_vars.add(p["id"])
            return ct + " *"
        return ct

    def ret_ctype(self):
        q = self.f["type"]["qualType"]
        dq = self.f["type"].get("desugaredQualType", q)
        r = _ret_of(q)
        try:
            return self.T.ctype(r)
        except Undecided:
            return self.T.ctype(_ret_of(dq))

    def run(self):
        lo = Lowered()
        lo.name = self.cname
        lo.sig = norm_sig(self.f["_sig"])
        rt = self.ret_ctype()
        ps = self.params()
        decl = "%s %s(%s)" % (rt, self.cname, ", ".join("%s %s" % p for p in ps) or "void")
        body = [c for c in self.f.get("inner", []) if c.get("kind") == "CompoundStmt"]
        if not body:
            raise Undecided("extraction: %s has no body" % self.cname)
        f, l0 = node_loc(self.f)
        lo.file, lo.line0 = f, l0
        e = self.f["range"]["end"]
        lo.line1 = e.get("_line", l0)
        txt = self.stmt(body[0], 0)
        lo.proto = decl + ";"
        lo.params = ps
        lo.ret = rt
        lo.text = "%s%s\n__FC_%s\n%s" % (self.line(self.f), decl, self.cname, txt)
        lo.loops = self.loops
        lo.calls = self.calls
        self.u.protos[self.cname] = decl + "\n__FC_%s;" % self.cname
        return lo

    # ---- statements -----------------------------------------------------------------------
    def ind(self, d):
        return "    " * d

    def stmt(self, n, d):
        k = n.get("kind")
        I = self.ind(d)
        if k == "CompoundStmt":
            inner = "".join(self.stmt(c, d + 1) for c in n.get("inner", []))
            return I + "{\n" + inner + I + "}\n"
        if k == "DeclStmt":
            return "".join(self.vardecl(c, d) for c in n.get("inner", []))
        if k == "ReturnStmt":
            inner = n.get("inner", [])
            if not inner:
                return self.line(n) + I + "return;\n"
            return self.line(n) + I + "return %s;\n" % self.rvalue_for_return(inner[0])
        if k == "IfStmt":
            inner = n["inner"]
            if n.get("hasInit") or n.get("hasVar"):
                self.bad(n, "if with init/var")
            s = self.line(n) + I + "if (%s)\n" % self.cond(inner[0])
            s += self.block(inner[1], d)
            if len(inner) > 2:
                s += I + "else\n" + self.block(inner[2], d)
            return s
        if k == "ForStmt":
            init, condvar, cond, inc, body = n["inner"]
            if condvar:
                self.bad(n, "for with condition variable")
            ord_ = self.loops
            self.loops += 1
            s = self.line(n) + I + "{\n"
            if init:
                s += self.stmt(init, d + 1) if init.get("kind") == "DeclStmt" else self.ind(d + 1) + self.expr(init) + ";\n"
            # LV = the counter this loop declares (a loop contract can name it without depending on what the source calls it)
            lv = None
            if init and init.get("kind") == "DeclStmt":
                vds = [c for c in init.get("inner", []) if isinstance(c, dict) and c.get("kind") == "VarDecl"]
                if len(vds) == 1:
                    lv = vds[0].get("name")
            if lv:
                s += "#undef LV\n#define LV %s\n" % lv
            s += self.line(n) + self.ind(d + 1) + "for (; %s; %s)\n" % (self.cond(cond) if cond else "1", self.expr(inc) if inc else "")
            s += self.ind(d + 1) + "__LC_%s_%d\n" % (self.cname, ord_)
            s += self.block(body, d + 1)
            s += I + "}\n"
            return s
        if k == "WhileStmt":
            inner = n["inner"]
            cond, body = inner[-2], inner[-1]
            ord_ = self.loops
            self.loops += 1
            s = self.line(n) + I + "while (%s)\n" % self.cond(cond)
            s += I + "__LC_%s_%d\n" % (self.cname, ord_)
            s += self.block(body, d)
            return s
        if k == "DoStmt":
            body, cond = n["inner"]
            ord_ = self.loops
            self.loops += 1
            s = self.line(n) + I + "do\n" + I + "__LC_%s_%d\n" % (self.cname, ord_) + self.block(body, d)
            s += I + "while (%s);\n" % self.cond(cond)
            return s
        if k == "CXXForRangeStmt":
            return self.range_for(n, d)
        if k == "BreakStmt":
            return self.line(n) + I + "break;\n"
        if k == "ContinueStmt":
            return self.line(n) + I + "continue;\n"
        if k == "NullStmt":
            return I + ";\n"
        if k == "SwitchStmt":
            inner = n["inner"]
            cond, body = inner[-2], inner[-1]
            return self.line(n) + I + "switch (%s)\n" % self.expr(cond) + self.stmt(body, d)
        if k == "CaseStmt":
            inner = n["inner"]
            s = self.line(n) + I + "case %s:\n" % self.expr(inner[0])
            return s + self.stmt(inner[-1], d + 1)
        if k == "DefaultStmt":
            return self.line(n) + I + "default:\n" + self.stmt(n["inner"][-1], d + 1)
        if k == "CXXTryStmt":
            return self.try_stmt(n, d)
        # expression statement
        return self.line(n) + I + self.expr(n, discard=True) + ";\n"

    def block(self, n, d):
        if n.get("kind") == "CompoundStmt":
            return self.stmt(n, d)
        return self.ind(d) + "{\n" + self.stmt(n, d + 1) + self.ind(d) + "}\n"

    def cond(self, n):
        return self.expr(n)

    def try_stmt(self, n, d):
        """try { ...std::stod/stoi... } catch (std::out_of_range &) { H }
        The model conversion functions set the global __exc (0 none, 1 out_of_range,
        2 invalid_argument).  Only out_of_range handlers are in the subset; any other pending
        exception is the assertion `no uncaught exception` emitted by the model itself."""
        inner = n["inner"]
        body, catches = inner[0], inner[1:]
        I = self.ind(d)
        s = self.line(n) + I + "{\n" + self.ind(d + 1) + "__exc = 0;\n"
        if body.get("kind") != "CompoundStmt":
            self.bad(n, "try body")
        stmts = body.get("inner", [])
        # every statement of the try body is guarded by `no exception pending`
        for st in stmts:
            if st.get("kind") == "DeclStmt":
                # declarations of the try block stay visible to its later statements: declare
                # first, initialise under the `no exception pending` guard
                for v in st.get("inner", []):
                    if v.get("kind") != "VarDecl":
                        continue
                    ct = self.T.ctype(v["type"], where=v.get("name"))
                    init = [c for c in v.get("inner", []) if isinstance(c, dict) and c.get("kind")]
                    s += self.line(v) + self.ind(d + 1) + "%s %s%s;\n" % (ct, v["name"], "" if init else self.default_init(ct))
                    if init:
                        t = self.newtmp("v")
                        s += self.ind(d + 1) + "if (__exc == 0)\n" + self.ind(d + 1) + "{\n"
                        s += self.ind(d + 2) + "%s %s = %s;\n" % (ct, t, self.expr(init[0]))
                        s += self.ind(d + 2) + "if (__exc == 0) %s = %s;\n" % (v["name"], t) + self.ind(d + 1) + "}\n"
                continue
            s += self.ind(d + 1) + "if (__exc == 0)\n" + self.try_body_stmt(st, d + 1)
        first = True
        for c in catches:
            ci = c.get("inner", [])
            if len(ci) != 2:
                self.bad(c, "catch shape")
            var, hbody = ci
            ty = (var.get("type") or {}).get("qualType", "") if var else ""
            if "out_of_range" in ty:
                test = "__exc == EXC_OUT_OF_RANGE"
            elif "invalid_argument" in ty:
                test = "__exc == EXC_INVALID_ARGUMENT"
            elif "logic_error" in ty or re.search(r"\bstd::exception\b", ty) or not var:
                test = "__exc != 0"      # both are std::logic_error; catch (...) / std::exception take everything
            else:
                self.bad(c, "catch of %s is not in the subset" % ty)
            s += self.ind(d + 1) + ("if" if first else "else if") + " (%s)\n" % test
            s += self.ind(d + 1) + "{\n" + self.ind(d + 2) + "__exc = 0;\n" + self.stmt(hbody, d + 2) + self.ind(d + 1) + "}\n"
            first = False
        s += self.ind(d + 1) + "NO_UNCAUGHT_EXCEPTION();\n"
        s += I + "}\n"
        return s

    def try_body_stmt(self, st, d):
        """`lhs = std::sto*(...)` inside a try: C++ does not perform the assignment when the
        call throws, so the value goes through a temporary."""
        e = _strip_transparent(st)
        if e.get("kind") == "BinaryOperator" and e.get("opcode") == "=":
            rhs = _strip_transparent(e["inner"][1])
            if rhs.get("kind") == "CallExpr":
                cal = _strip_casts(rhs["inner"][0])
                if (cal.get("referencedDecl") or {}).get("name") in ("stod", "stoi", "stoul", "stol"):
                    ct = self.T.ctype(e["inner"][0]["type"])
                    t = self.newtmp("v")
                    I = self.ind(d + 1)
                    return (self.ind(d) + "{\n" + self.line(st) + I + "%s %s = %s;\n" % (ct, t, self.expr(e["inner"][1]))
                            + I + "if (__exc == 0) %s = %s;\n" % (self.expr(e["inner"][0]), t) + self.ind(d) + "}\n")
        return self.block(st, d)

    def range_for(self, n, d):
        inner = n["inner"]
        # [init, range decl, begin decl, end decl, cond, inc, loop var decl, body]
        if len(inner) != 8 or inner[0]:
            self.bad(n, "range-for shape")
        rangedecl = inner[1]["inner"][0]
        loopvar = inner[6]["inner"][0]
        body = inner[7]
        rexpr = rangedecl["inner"][0]
        rct = self.T.ctype(rangedecl["type"])
        I, I1, I2 = self.ind(d), self.ind(d + 1), self.ind(d + 2)
        ord_ = self.loops
        self.loops += 1
        rv = self.newtmp("range")
        iv = self.newtmp("i")
        s = self.line(n) + I + "{\n"
        lv = self.lvalue_or_none(rexpr)
        if lv is not None:
            s += I1 + "%s *%s = &(%s);\n" % (rct, rv, lv)
        else:
            s += I1 + "%s %s_v = %s;\n" % (rct, rv, self.expr(rexpr))
            s += I1 + "%s *%s = &%s_v;\n" % (rct, rv, rv)
        s += I1 + "size_t %s;\n" % iv
        s += self.line(n) + I1 + "for (%s = 0; %s < %s_size(%s); ++%s)\n" % (iv, iv, rct, rv, iv)
        s += I1 + "__LC_%s_%d\n" % (self.cname, ord_)
        s += I1 + "{\n"
        vct = self.T.ctype(loopvar["type"])
        vname = loopvar["name"]
        if self.T.is_lref(loopvar["type"]) and not self.T.is_const_lref(loopvar["type"]):
            self.ptr_vars.add(loopvar["id"])
            s += I2 + "%s *%s = &VEC_AT(%s, %s, %s);\n" % (vct, vname, rct, rv, iv)
        else:
            s += I2 + "%s %s = VEC_AT(%s, %s, %s);\n" % (vct, vname, rct, rv, iv)
        s += self.block(body, d + 2)
        s += I1 + "}\n" + I + "}\n"
        return s

    def vardecl(self, v, d):
        I = self.ind(d)
        if v.get("kind") != "VarDecl":
            if v.get("kind") in ("TypeAliasDecl", "TypedefDecl", "StaticAssertDecl"):
                return ""
            self.bad(v, "declaration kind")
        name = v["name"]
        ct = self.T.ctype(v["type"], where=name)
        init = [c for c in v.get("inner", []) if isinstance(c, dict) and c.get("kind")]
        ln = self.line(v)
        static = "static " if v.get("storageClass") == "static" else ""
        if self.T.is_lref(v["type"]) and not self.T.is_const_lref(v["type"]):
            self.ptr_vars.add(v["id"])
            if not init:
                self.bad(v, "reference without initialiser")
            return ln + I + "%s *%s = &(%s);\n" % (ct, name, self.lvalue(init[0]))
        if static and init:
            # function-local static const scalars only
            return ln + I + "const %s %s = %s;\n" % (ct, name, self.expr(init[0]))
        if not init:
            return ln + I + "%s %s%s;\n" % (ct, name, self.default_init(ct))
        return ln + I + "%s %s = %s;\n" % (ct, name, self.init_expr(init[0], ct))

    def default_init(self, ct):
        if ct in ("ref",):
            return " = 0"
        if ct in SCALARS.values() or ct.endswith("*") or ct == "int":
            return ""        # C++ leaves scalars uninitialised too
        return " = %s_new()" % ct

    def init_expr(self, n, ct):
        return self.expr(n)

    def rvalue_for_return(self, n):
        return self.expr(n)

    # ---- expressions ----------------------------------------------------------------------
    def lvalue_or_none(self, n):
        try:
            if self.value_category(n) == "lvalue":
                return self.expr(n)
        except Undecided:
            raise
        return None

    def value_category(self, n):
        k = n.get("kind")
        if k in TRANSPARENT and k != "MaterializeTemporaryExpr":
            return self.value_category(n["inner"][0])
        if k == "MaterializeTemporaryExpr":
            return "prvalue"
        if k == "ImplicitCastExpr" and n.get("castKind") in ("NoOp", "DerivedToBase", "UncheckedDerivedToBase"):
            return self.value_category(n["inner"][0])
        if k == "ParenExpr":
            return self.value_category(n["inner"][0])
        if k == "CallExpr" or k == "CXXMemberCallExpr" or k == "CXXOperatorCallExpr":
            # calls returning a C++ reference are lvalues in the AST, but a lowered libCellML
            # function returns a value; only model accessors (at, operator[], *it) return lvalues
            return n.get("valueCategory") if self.is_model_lvalue_call(n) else "prvalue"
        return n.get("valueCategory", "prvalue")

    def is_model_lvalue_call(self, n):
        k = n.get("kind")
        if n.get("valueCategory") != "lvalue":
            return False
        if k == "CXXMemberCallExpr":
            me = n["inner"][0]
            return me.get("name") in ("at", "operator[]", "front", "back")
        if k == "CXXOperatorCallExpr":
            cal = _strip_casts(n["inner"][0])
            nm = (cal.get("referencedDecl") or {}).get("name", "")
            return nm in ("operator[]", "operator*")
        return False

    def lvalue(self, n):
        return self.expr(n)

    def expr(self, n, discard=False):
        k = n.get("kind")
        m = getattr(self, "e_" + k, None)
        if m is None:
            self.bad(n, "expression kind")
        return m(n)

    # transparent wrappers
    def e_ExprWithCleanups(self, n):
        return self.expr(n["inner"][0])
    e_CXXBindTemporaryExpr = e_ExprWithCleanups
    e_MaterializeTemporaryExpr = e_ExprWithCleanups
    e_ConstantExpr = e_ExprWithCleanups
    e_SubstNonTypeTemplateParmExpr = e_ExprWithCleanups

    def e_ParenExpr(self, n):
        return "(%s)" % self.expr(n["inner"][0])

    def e_IntegerLiteral(self, n):
        v = n["value"]
        q = self.T.qt(n["type"])
        if "unsigned long" in q:
            return v + "UL"
        if "long" in q:
            return v + "L"
        if "unsigned" in q:
            return v + "U"
        return v

    def e_CharacterLiteral(self, n):
        v = int(n["value"])
        if 32 <= v < 127 and chr(v) not in "'\\":
            return "'%s'" % chr(v)
        return "((char)%d)" % v

    def e_CXXBoolLiteralExpr(self, n):
        return "1" if n["value"] else "0"

    def e_FloatingLiteral(self, n):
        v = n["value"]
        if not any(c in v for c in ".eEnN"):
            v += ".0"
        return v

    def e_CXXNullPtrLiteralExpr(self, n):
        return "((ref)0)"

    def e_GNUNullExpr(self, n):
        return "0"

    def e_StringLiteral(self, n):
        return n["value"]

    def e_CXXThisExpr(self, n):
        return "self"

    def e_ImplicitValueInitExpr(self, n):
        return "0"

    def e_CXXScalarValueInitExpr(self, n):
        return "0"

    def e_DeclRefExpr(self, n):
        r = n["referencedDecl"]
        rk = r["kind"]
        if rk in ("ParmVarDecl", "VarDecl"):
            nm = self.renames.get(r["id"], r["name"])
            if nm == "npos" and rk == "VarDecl" and self.find_decl(r["id"]) is None:
                return "VSTR_NPOS"
            if r["id"] in self.ptr_vars:
                return "(*%s)" % nm
            if rk == "VarDecl" and self.is_global(r):
                return self.global_ref(r, n)
            return nm
        if rk == "EnumConstantDecl":
            d = self.find_decl(r["id"])
            if d is not None and "_cname" in d:
                self.u.used_enumerators[d["_cname"]] = True
                return d["_cname"]
            self.bad(n, "enumerator not indexed")
        if rk in ("FunctionDecl", "CXXMethodDecl"):
            d = self.u_func(r["id"])
            return self.u.cname_for(d)
        if rk == "BindingDecl":
            self.bad(n, "structured binding")
        self.bad(n, "reference to " + rk)

    def is_global(self, r):
        d = self.find_decl(r["id"])
        return d is not None and d.get("_global", False)

    def global_ref(self, r, n):
        """A namespace-scope constant table: lowered once, as a constant-initialised C object."""
        d = self.find_decl(r["id"])
        # the definition may be another redeclaration (extern in a header)
        name = d["name"]
        if name not in self.u.globals_:
            init = [c for c in d.get("inner", []) if isinstance(c, dict) and c.get("kind")]
            if not init:
                d2 = self.u.global_decls.get(name)
                init = [c for c in (d2 or {}).get("inner", []) if isinstance(c, dict) and c.get("kind")]
                if not init:
                    self.bad(n, "global %s has no visible initialiser" % name)
            ct = self.T.ctype(d["type"], where=name)
            q = d["type"]["qualType"]
            if not q.startswith("const ") and "const" not in q:
                self.bad(n, "mutable global %s" % name)
            self.u.globals_[name] = "%sstatic const %s %s = %s;" % (self.line(d), ct, name, self.const_init(init[0], ct))
        self.note_call("global::" + name)
        return name

    def const_init(self, n, ct):
        """Brace initialiser (a C constant expression) for a table built from literals."""
        n = _strip_transparent(n)
        k = n.get("kind")
        if k in ("CXXConstructExpr", "CXXTemporaryObjectExpr"):
            args = [a for a in n.get("inner", []) if a.get("kind") != "CXXDefaultArgExpr"]
            if n.get("initializer_list") and args:
                il = _find_initlist(args[0])
                if il is None:
                    self.bad(n, "initializer_list shape")
                elems = il.get("inner", [])
                if il.get("array_filler"):
                    self.bad(n, "array filler")
                ect = self.elem_ctype(ct)
                return "{%d, {%s}}" % (len(elems), ", ".join(self.const_init(e, ect) for e in elems))
            if ct == self.T.STR:
                lit = _string_literal(n)
                if lit is not None:
                    return self.u.sid_literal(lit) if ct == "sid" else "%s_INIT(%s)" % (self.T.STR.upper(), lit)
            if ct.startswith("vpair_") and len(args) == 2:
                a, b = self.pair_ctypes(n)
                return "{%s, %s}" % (self.const_init(args[0], a), self.const_init(args[1], b))
            if len(args) == 1:
                return self.const_init(args[0], ct)
            self.bad(n, "constant constructor of %s" % ct)
        if k == "InitListExpr":
            elems = n.get("inner", [])
            if ct.startswith("vpair_") and len(elems) == 2:
                a, b = self.pair_ctypes(n)
                return "{%s, %s}" % (self.const_init(elems[0], a), self.const_init(elems[1], b))
            ect = self.elem_ctype(ct)
            return "{%d, {%s}}" % (len(elems), ", ".join(self.const_init(e, ect) for e in elems))
        if k == "StringLiteral" and ct == self.T.STR:
            return self.u.sid_literal(n["value"]) if ct == "sid" else "%s_INIT(%s)" % (self.T.STR.upper(), n["value"])
        if k == "CallExpr":
            cal = _strip_casts(n["inner"][0])
            if (cal.get("referencedDecl") or {}).get("name") in ("max", "min", "epsilon", "lowest", "infinity") and len(n["inner"]) == 1:
                return self.expr(n)     # std::numeric_limits<T>::f(): a constant macro
        if k in ("IntegerLiteral", "FloatingLiteral", "CharacterLiteral", "CXXBoolLiteralExpr", "UnaryOperator",
                 "ImplicitCastExpr", "DeclRefExpr", "BinaryOperator", "CStyleCastExpr", "CXXStaticCastExpr",
                 "CXXFunctionalCastExpr"):
            return self.expr(n)
        self.bad(n, "constant initialiser")

    def pair_ctypes(self, n):
        t = _strip(self.T.qt(n["type"]))
        _h, args = split_targs(t)
        return self.T.ctype(args[0]), self.T.ctype(args[1])

    def elem_ctype(self, ct):
        d = self.T.elem.get(ct)
        if d is None:
            raise Undecided("extraction: element type of %s unknown" % ct)
        return d

    def find_decl(self, id_):
        for tu in self.u.tus:
            if id_ in tu.by_id:
                return tu.by_id[id_]
        return None

    def u_func(self, id_):
        for tu in self.u.tus:
            if id_ in tu.func_by_id:
                d = tu.func_by_id[id_]
                if "_sig" in d:
                    return d
        raise Undecided("extraction: %s: callee declaration %s not found in the dumped AST" % (self.cname, id_))

    # casts
    def e_ImplicitCastExpr(self, n):
        ck = n.get("castKind")
        sub = n["inner"][0]
        if ck in ("LValueToRValue", "NoOp", "FunctionToPointerDecay", "ArrayToPointerDecay", "DerivedToBase",
                  "UncheckedDerivedToBase", "ConstructorConversion", "UserDefinedConversion", "BaseToDerived",
                  "BuiltinFnToFnPtr"):
            return self.expr(sub)
        if ck in ("IntegralCast", "IntegralToFloating", "FloatingCast", "FloatingToIntegral", "BitCast"):
            ct = self.T.ctype(n["type"])
            return "((%s)%s)" % (ct, self.paren(sub))
        if ck in ("IntegralToBoolean", "PointerToBoolean", "FloatingToBoolean"):
            return "(%s != 0)" % self.paren(sub)
        if ck == "NullToPointer":
            return "((ref)0)" if self.T.ctype(n["type"]) == "ref" else "0"
        self.bad(n, "cast kind %s" % ck)

    def e_CStyleCastExpr(self, n):
        ct = self.T.ctype(n["type"])
        sub = n["inner"][0]
        if n.get("castKind") in ("NoOp", "ConstructorConversion", "LValueToRValue"):
            return self.expr(sub)
        return "((%s)%s)" % (ct, self.paren(sub))
    e_CXXFunctionalCastExpr = e_CStyleCastExpr
    e_CXXStaticCastExpr = e_CStyleCastExpr

    def e_CXXReinterpretCastExpr(self, n):
        ct = self.T.ctype(n["type"])
        sub = n["inner"][0]
        sct = self.T.ctype(sub["type"])
        if ct == sct == "ref":
            return self.expr(sub)
        if sct == "ref" and ct in ("size_t", "uintptr_t", "uint64_t", "unsigned long long", "long"):
            # the address of an object: an injective, otherwise arbitrary map from object ids
            return "((%s)ADDR_OF(%s))" % (ct, self.expr(sub))
        return "((%s)%s)" % (ct, self.paren(sub))

    def e_CXXConstCastExpr(self, n):
        return self.expr(n["inner"][0])

    def paren(self, n):
        s = self.expr(n)
        if re.fullmatch(r"[A-Za-z0-9_.]+|\(.*\)", s) and _balanced(s):
            return s
        return "(%s)" % s

    # operators
    def e_UnaryOperator(self, n):
        op = n["opcode"]
        sub = self.paren(n["inner"][0])
        if op in ("!", "-", "+", "~", "*", "&"):
            return "%s%s" % (op, sub)
        if op in ("++", "--"):
            return (sub + op) if n.get("isPostfix") else (op + sub)
        self.bad(n, "unary " + op)

    def e_BinaryOperator(self, n):
        op = n["opcode"]
        if op not in BINOPS:
            self.bad(n, "binary " + op)
        a, b = n["inner"]
        if op == "=":
            return "%s = %s" % (self.expr(a), self.expr(b))
        return "%s %s %s" % (self.paren(a), op, self.paren(b))

    def e_CompoundAssignOperator(self, n):
        a, b = n["inner"]
        return "%s %s %s" % (self.expr(a), n["opcode"], self.paren(b))

    def e_ConditionalOperator(self, n):
        c, a, b = n["inner"]
        return "(%s ? %s : %s)" % (self.paren(c), self.paren(a), self.paren(b))

    def e_ArraySubscriptExpr(self, n):
        a, b = n["inner"]
        return "%s[%s]" % (self.paren(a), self.expr(b))

    def e_UnaryExprOrTypeTraitExpr(self, n):
        if n.get("name") == "sizeof":
            at = n.get("argType")
            if at:
                return "sizeof(%s)" % self.T.ctype(at)
            return "sizeof(%s)" % self.expr(n["inner"][0])
        self.bad(n, "type trait")

    def e_InitListExpr(self, n):
        ct = self.T.ctype(n["type"])
        elems = n.get("inner", [])
        if ct.startswith("vpair_") and len(elems) == 2:
            return "((%s){%s, %s})" % (ct, self.expr(elems[0]), self.expr(elems[1]))
        if not elems and ct == "ref":
            return "((ref)0)"
        if not elems:
            return "%s_new()" % ct
        self.bad(n, "initializer list for %s" % ct)

    # member access
    def e_MemberExpr(self, n):
        base = n["inner"][0]
        fd = self.find_decl(n.get("referencedMemberDecl"))
        if fd is None:
            # a member of a std:: aggregate (std::pair): the record is outside the filtered dump
            bq = _strip(self.T.qt(base["type"]))
            if n.get("isArrow") and bq.endswith("*"):
                bq = _strip(bq[:-1])
            bct = self.T._ctype(bq)
            if bct is not None and bct.startswith("vpair_") and n["name"] in ("first", "second"):
                if n.get("isArrow"):
                    return "%s->%s" % (self.paren(base), n["name"])
                return "%s.%s" % (self.paren(base), n["name"])
            self.bad(n, "member decl not found")
        if fd.get("kind") == "FieldDecl":
            bct = self.T._ctype(self.T.qt(base["type"]))
            name = n["name"]
            if name == "mPimpl":
                return self.expr(base)
            owner = self.field_owner(fd)
            if owner is not None and cident(owner.replace("libcellml::", "", 1)) in self.T.value_records:
                if n.get("isArrow"):
                    return "%s->%s" % (self.paren(base), name)
                return "%s.%s" % (self.paren(base), name)
            if owner is not None and owner.startswith("libcellml::") and self.is_heap_record(owner):
                arr = "F_%s_%s" % (cident(owner.split("::")[-1]), name)
                self.u.fields.setdefault(arr, self.T.ctype(fd["type"], where=arr))
                self.u.field_decls.setdefault(arr, fd)
                b = self.obj_ref(base, n.get("isArrow"))
                return "%s[%s]" % (arr, b)
            # plain struct (std::pair, local aggregates)
            b = self.expr(base)
            if n.get("isArrow"):
                return "%s->%s" % (self.paren(base), name)
            return "%s.%s" % (self.paren(base), name)
        self.bad(n, "member expression outside a call")

    def is_heap_record(self, owner):
        return True

    def field_owner(self, fd):
        # owner record is found by scanning the records of the TU for the FieldDecl id
        if "_owner" in fd:
            return fd["_owner"]
        for tu in self.u.tus:
            for rid, q in tu.records.items():
                rec = tu.by_id.get(rid)
                for c in rec.get("inner", []):
                    if c.get("kind") == "FieldDecl":
                        c["_owner"] = q
        return fd.get("_owner")

    def obj_ref(self, base, is_arrow):
        """The object id a member access goes through; dereferences other than `this` assert
        non-null (that assertion is C09's `no call crashes` obligation)."""
        b = _strip_transparent(base)
        if b.get("kind") == "CXXThisExpr":
            return "self"
        s = self.expr(base)
        if s == "self":
            return s
        return "NN(%s)" % s

    # construction
    def e_CXXConstructExpr(self, n):
        ct = self.T.ctype(n["type"])
        args = [a for a in n.get("inner", []) if a.get("kind") != "CXXDefaultArgExpr"]
        if n.get("initializer_list") and args and ct != self.T.STR:
            il = _find_initlist(args[0])
            if il is None:
                self.bad(n, "initializer_list shape")
            elems = il.get("inner", [])
            return "((%s){%d, {%s}})" % (ct, len(elems), ", ".join(self.expr(e) for e in elems))
        if ct == self.T.STR:
            if not args:
                return "%s_new()" % ct
            if len(args) == 1:
                a = _strip_transparent(args[0])
                act = self.T._ctype(self.T.qt(args[0]["type"]))
                if act == ct:
                    return self.expr(args[0])     # copy / move
                lit = _string_literal(args[0])
                if lit is not None:
                    return self.str_lit(lit)
            if len(args) == 2:
                # string(count, char)
                a0 = self.T._ctype(self.T.qt(args[0]["type"]))
                if a0 == "size_t":
                    return "%s_fill(%s, %s)" % (ct, self.expr(args[0]), self.expr(args[1]))
            self.bad(n, "string constructor")
        if ct == "ref":
            if not args:
                return "((ref)0)"
            if len(args) == 1:
                return self.expr(args[0])
            self.bad(n, "pointer constructor")
        if ct == "vstream":
            if not args:
                return "vstream_new()"
            if len(args) == 1 and self.T._ctype(self.T.qt(args[0]["type"])) == self.T.STR:
                self.expr(args[0])
                return "vstream_open()"
            self.bad(n, "stream constructor")
        if not args:
            return "%s_new()" % ct
        if len(args) == 1:
            act = self.T._ctype(self.T.qt(args[0]["type"]))
            if act == ct:
                return self.expr(args[0])
            if ct.startswith("vvec_") and act == "size_t":
                return "%s_sized(%s)" % (ct, self.expr(args[0]))
        if ct.startswith("vpair_") and len(args) == 2:
            return "((%s){%s, %s})" % (ct, self.expr(args[0]), self.expr(args[1]))
        self.bad(n, "constructor of %s with %d args" % (ct, len(args)))

    def e_CXXTemporaryObjectExpr(self, n):
        return self.e_CXXConstructExpr(n)

    def str_lit(self, lit):
        if self.T.STR == "sid":
            return self.u.sid_literal(lit)
        self.u.strings[lit] = True
        return "%s_lit(%s)" % (self.T.STR, lit)

    def e_CXXDefaultArgExpr(self, n):
        self.bad(n, "default argument used at call site")

    # calls
    def call_args(self, callee_decl, args):
        """Lower arguments against the callee's parameter types (non-const T& -> &arg)."""
        ps = [c for c in callee_decl.get("inner", []) if c.get("kind") == "ParmVarDecl"] if callee_decl else []
        out = []
        for i, a in enumerate(args):
            if a.get("kind") == "CXXDefaultArgExpr":
                p = ps[i] if i < len(ps) else None
                init = [c for c in (p or {}).get("inner", []) if isinstance(c, dict) and c.get("kind")]
                if not init:
                    self.bad(a, "default argument without visible initialiser")
                out.append(self.expr(init[0]))
                continue
            if i < len(ps) and self.T.is_lref(ps[i]["type"]) and not self.T.is_const_lref(ps[i]["type"]):
                out.append("&(%s)" % self.lvalue(a))
            else:
                out.append(self.expr(a))
        return out

    def e_CallExpr(self, n):
        callee = _strip_casts(n["inner"][0])
        args = n["inner"][1:]
        if callee.get("kind") != "DeclRefExpr":
            self.bad(n, "indirect call")
        r = callee["referencedDecl"]
        name = r.get("name", "")
        d = None
        for tu in self.u.tus:
            if r["id"] in tu.func_by_id:
                d = tu.func_by_id[r["id"]]
        if d is not None and d.get("_sig", "").startswith("libcellml::"):
            cn = self.u.cname_for(d)
            self.note_call(cn)
            self.ensure_proto(d, cn)
            if cn == self.cname and cn in self.u.rec_stubs:
                # the recursive call is the function's own contract (induction on depth)
                self.u.protos[cn + "__rec"] = self.u.protos[cn].split("\n")[0].replace(cn + "(", cn + "__rec(") + "\n__RC_%s;" % cn
                cn = cn + "__rec"
            return "%s(%s)" % (cn, ", ".join(self.call_args(d, args)))
        return self.std_call(n, name, args)

    def ensure_proto(self, d, cn):
        if cn in self.u.protos:
            return
        fl = FunctionLowerer(self.u, self.tu, d)
        rt = fl.ret_ctype()
        ps = fl.params()
        self.u.protos[cn] = "%s %s(%s)\n__FC_%s;" % (rt, cn, ", ".join("%s %s" % p for p in ps) or "void", cn)
        self.u.proto_sig[cn] = d.get("_sig")

    def std_call(self, n, name, args):
        q = self.T.qt(n["type"])
        if name in ("all_of", "any_of", "none_of", "find_if", "find_if_not", "count_if", "remove_if"):
            return self.algo_pred(n, name, args)
        if name in ("stod", "stoi", "stoul", "stol"):
            self.note_call("std::" + name)
            a = [x for x in args if x.get("kind") != "CXXDefaultArgExpr"]
            return "std_%s(%s)" % (name, ", ".join(self.expr(x) for x in a))
        if name in ("isnan", "isinf", "fabs", "pow", "log10", "floor", "ceil", "sqrt", "exp", "log", "abs", "isfinite"):
            return "std_%s(%s)" % (name, ", ".join(self.expr(x) for x in args))
        if name in ("epsilon", "max", "min", "lowest", "infinity", "quiet_NaN") and not args:
            ct = self.T.ctype(n["type"])
            return "NUMLIM_%s_%s" % (name, self.T.abbr(ct))
        if name == "memcpy":
            return "memcpy(%s)" % ", ".join(self.expr(x) for x in args)
        if name in ("move", "forward", "as_const"):
            return self.expr(args[0])
        if name in ("dynamic_pointer_cast", "static_pointer_cast", "const_pointer_cast", "reinterpret_pointer_cast"):
            target = _strip(split_targs(_strip(q))[1][0]) if split_targs(_strip(q))[1] else ""
            if name == "dynamic_pointer_cast":
                self.note_call("dynamic_pointer_cast<%s>" % target)
                return "DYNCAST_%s(%s)" % (cident(target.replace("libcellml::", "").replace("const ", "").strip()), self.expr(args[0]))
            return self.expr(args[0])
        if name == "make_pair":
            ct = self.T.ctype(n["type"])
            return "((%s){%s, %s})" % (ct, self.expr(args[0]), self.expr(args[1]))
        if name == "iota" and len(args) == 3:
            it = self.T.ctype(args[0]["type"])
            self.T.used.setdefault("iota_" + it, "IOTA_DECL(%s)" % it)
            return "%s_iota(%s, %s, %s)" % (it, self.expr(args[0]), self.expr(args[1]), self.expr(args[2]))
        if name in ("begin", "end", "cbegin", "cend") and len(args) == 1:
            ct = self.T.ctype(args[0]["type"])
            self.T.ctype(n["type"])        # registers the iterator type
            return "%s_%s(&(%s))" % (ct, name, self.lvalue(args[0]))
        if name == "reverse" and len(args) == 2:
            it = self.T.ctype(args[0]["type"])
            self.T.used.setdefault("reverse_" + it, "REVERSE_DECL(%s)" % it)
            return "%s_reverse(%s, %s)" % (it, self.expr(args[0]), self.expr(args[1]))
        if name == "copy" and len(args) == 3:
            bi = _strip_transparent(_strip_casts(args[2]))
            if bi.get("kind") == "CallExpr" and (_strip_casts(bi["inner"][0]).get("referencedDecl") or {}).get("name") == "back_inserter":
                dst = bi["inner"][1]
                it = self.T.ctype(args[0]["type"])
                dct = self.T.ctype(dst["type"])
                return "%s_copy_back_%s(%s, %s, &(%s))" % (it, dct, self.expr(args[0]), self.expr(args[1]), self.lvalue(dst))
            self.bad(n, "std::copy without back_inserter")
        if name == "swap" and len(args) == 2:
            ct = self.T.ctype(args[0]["type"])
            t = self.newtmp("swap")
            return "({ %s %s = %s; %s = %s; %s = %s; })" % (ct, t, self.lvalue(args[0]), self.lvalue(args[0]), self.lvalue(args[1]), self.lvalue(args[1]), t)
        if name in ("min", "max"):
            return "STD_%s(%s, %s)" % (name.upper(), self.expr(args[0]), self.expr(args[1]))
        if name == "find":
            return self.algo_find(n, args)
        if name == "distance":
            return "((ptrdiff_t)(%s.i) - (ptrdiff_t)(%s.i))" % (self.paren(args[1]), self.paren(args[0]))
        self.bad(n, "call to std::%s" % name)

    def algo_find(self, n, args):
        it = self.T.ctype(args[0]["type"])
        vct = self.T.ctype(args[2]["type"])
        return "%s_find(%s, %s, %s)" % (it, self.expr(args[0]), self.expr(args[1]), self.expr(args[2]))

    def algo_pred(self, n, name, args):
        """std::all_of/any_of/find_if(first, last, pred): the algorithm's loop is emitted as a
        helper whose predicate is the lowered callable."""
        first, last, pred = args
        itct = self.T.ctype(first["type"])
        p = _strip_transparent(_strip_casts(pred))
        extra_params, extra_args = [], []
        if p.get("kind") == "DeclRefExpr":
            d = self.u_func(p["referencedDecl"]["id"])
            pname = self.u.cname_for(d)
            self.ensure_proto(d, pname)
            self.note_call(pname)
            ept = FunctionLowerer(self.u, self.tu, d).params()[0][0]
        elif p.get("kind") == "LambdaExpr":
            pname, extra_params, extra_args, ept = self.lambda_fn(p)
        else:
            self.bad(pred, "callable kind")
        self.u_helper_counter = getattr(self.u, "_hc", 0) + 1
        self.u._hc = self.u_helper_counter
        hname = "std_%s__%s" % (name, pname)
        ep = "".join(", %s %s" % x for x in extra_params)
        ea = "".join(", %s" % x for x in extra_args)
        if hname not in [h[0] for h in getattr(self.u, "_hnames", [])]:
            self.u._hnames = getattr(self.u, "_hnames", []) + [(hname,)]
            lc = "__LC_%s_0" % hname
            callp = "%s(VIT_DEREF(first)%s)" % (pname, ea_names(extra_params))
            if name == "all_of":
                rt, body = "bool", "for (; first.i != last.i; ++first.i)\n    %s\n    { if (!%s) return 0; }\n    return 1;" % (lc, callp)
            elif name == "any_of":
                rt, body = "bool", "for (; first.i != last.i; ++first.i)\n    %s\n    { if (%s) return 1; }\n    return 0;" % (lc, callp)
            elif name == "none_of":
                rt, body = "bool", "for (; first.i != last.i; ++first.i)\n    %s\n    { if (%s) return 0; }\n    return 1;" % (lc, callp)
            elif name == "find_if":
                rt, body = itct, "for (; first.i != last.i; ++first.i)\n    %s\n    { if (%s) return first; }\n    return last;" % (lc, callp)
            elif name == "remove_if":
                rt, body = itct, ("%s out = first;\n    for (; first.i != last.i; ++first.i)\n    %s\n    { if (!%s) { VIT_DEREF(out) = VIT_DEREF(first); ++out.i; } }\n    return out;" % (itct, lc, callp))
            elif name == "find_if_not":
                rt, body = itct, "for (; first.i != last.i; ++first.i)\n    %s\n    { if (!%s) return first; }\n    return last;" % (lc, callp)
            else:
                rt, body = "ptrdiff_t", "ptrdiff_t __n = 0;\n    for (; first.i != last.i; ++first.i)\n    %s\n    { if (%s) ++__n; }\n    return __n;" % (lc, callp)
            decl = "%s %s(%s first, %s last%s)" % (rt, hname, itct, itct, ep)
            self.u.helper_protos.append(decl + "\n__FC_%s;" % hname)
            self.u.helpers.append("%s\n__FC_%s\n{\n    %s\n}\n" % (decl, hname, body))
        self.note_call(hname)
        return "%s(%s, %s%s)" % (hname, self.expr(first), self.expr(last), ea)

    def lambda_fn(self, lam):
        """Lift a lambda to a static C function; captures (explicit in the AST as references to
        enclosing variables, and `this`) become trailing parameters."""
        rec = lam["inner"][0]
        body = [c for c in lam["inner"] if c.get("kind") == "CompoundStmt"][-1]
        op = None
        for c in rec.get("inner", []):
            if c.get("kind") == "CXXMethodDecl" and c.get("name") == "operator()":
                op = c
        if op is None:
            self.bad(lam, "lambda without operator()")
        self.u._lc = getattr(self.u, "_lc", 0) + 1
        lname = "lambda_%s_%d" % (self.cname, self._lambda_index())
        sub = FunctionLowerer(self.u, self.tu, op, parent=self)
        sub.cname = lname
        sub.is_method = False
        sub.ptr_vars = set(self.ptr_vars)
        sub.renames = dict(self.renames)
        own = set()
        for c in _walk(op):
            if c.get("kind") in ("ParmVarDecl", "VarDecl"):
                own.add(c["id"])
        caps, seen, uses_this = [], set(), False
        for c in _walk(body):
            if c.get("kind") == "DeclRefExpr":
                r = c["referencedDecl"]
                if r["kind"] in ("ParmVarDecl", "VarDecl") and r["id"] not in own and r["id"] not in seen:
                    d = self.find_decl(r["id"])
                    if d is not None and not d.get("_global"):
                        seen.add(r["id"])
                        caps.append(d)
            if c.get("kind") == "CXXThisExpr":
                uses_this = True
        ps = sub.params()
        extra_params, extra_args = [], []
        if uses_this:
            extra_params.append(("ref", "self"))
            extra_args.append("self")
        for d in caps:
            ct = self.T.ctype(d["type"])
            nm = self.renames.get(d["id"], d["name"])
            if d["id"] in self.ptr_vars:
                extra_params.append((ct + " *", nm))
                extra_args.append(nm)
            else:
                extra_params.append((ct, nm))
                extra_args.append(nm)
        rt = sub.ret_ctype()
        decl = "%s %s(%s)" % (rt, lname, ", ".join("%s %s" % p for p in ps + extra_params))
        txt = sub.stmt(body, 0)
        self.u.helper_protos.append(decl + ";")
        self.u.helpers.append("%s%s\n%s" % (self.line(lam), decl, txt))
        self.loops_in_lambdas = getattr(self, "loops_in_lambdas", 0) + sub.loops
        for k2, v2 in sub.calls.items():
            self.calls[k2] = self.calls.get(k2, 0) + v2
        return lname, extra_params, extra_args, ps[0][0] if ps else None

    def _lambda_index(self):
        self._li = getattr(self, "_li", -1) + 1
        return self._li

    def e_LambdaExpr(self, n):
        self.bad(n, "lambda outside a supported algorithm call")

    def e_CXXMemberCallExpr(self, n):
        me = _strip_casts(n["inner"][0])
        args = n["inner"][1:]
        if me.get("kind") != "MemberExpr":
            self.bad(n, "member call shape")
        obj = me["inner"][0]
        name = me["name"]
        md = self.find_decl(me.get("referencedMemberDecl"))
        oq = self.T.qt(obj["type"])
        ot = _strip(oq)
        if me.get("isArrow") and ot.endswith("*"):
            ot = _strip(ot[:-1])
        if ot.startswith("libcellml::") or (md is not None and md.get("_sig", "").startswith("libcellml::")):
            return self.cellml_method(n, me, obj, name, md, args)
        oct_ = self.T.ctype(obj["type"])
        if name == "insert" and len(args) == 1 and "std::multimap<" in (self.T.qt(obj["type"]) or ""):
            # keys-only multimap: insert(std::make_pair(k, v)) inserts k
            mp = _find_make_pair(args[0])
            if mp is None:
                self.bad(n, "multimap insert without std::make_pair")
            lv = self.lvalue_or_none(obj)
            if lv is None:
                self.bad(n, "multimap insert on a temporary")
            self.note_call("std::%s::insert" % oct_)
            return "%s_insert_1(&(%s), %s)" % (oct_, lv, self.expr(mp["inner"][1]))
        if me.get("isArrow") and oct_.endswith(" *"):
            # it->member(): the object is what the pointer (from operator->) designates
            return self.std_method(n, oct_[:-2], obj, name, args, me, deref=True)
        return self.std_method(n, oct_, obj, name, args, me)

    def cellml_method(self, n, me, obj, name, md, args):
        if md is None or "_sig" not in md:
            md = self.u_func(me.get("referencedMemberDecl"))
        if name == "pFunc":
            return self.obj_ref(obj, me.get("isArrow"))
        if name == "shared_from_this":
            return self.obj_ref(obj, me.get("isArrow"))
        cn = self.u.cname_for(md)
        objs = self.obj_ref(obj, me.get("isArrow"))
        virt = md.get("virtual") or self.overrides_virtual(md)
        txt = node_text(me)
        qualified = "::" in txt.split("(")[0].split("->")[-1].split(".")[-1]
        if virt and not qualified:
            cn = "V_" + cident(md["name"])
            # virtual dispatch: resolved by the spec (dispatcher or contract stub)
            self.note_call(cn)
            fl = FunctionLowerer(self.u, self.tu, md)
            if cn not in self.u.protos:
                self.u.protos[cn] = "%s %s(%s)\n__FC_%s;" % (fl.ret_ctype(), cn, ", ".join("%s %s" % p for p in fl.params()), cn)
        else:
            self.note_call(cn)
            self.ensure_proto(md, cn)
            if cn == self.cname and cn in self.u.rec_stubs:
                # induction on the depth of the object tree: the recursive call is the function's
                # own contract, provided by the spec as <name>__rec
                self.u.protos[cn + "__rec"] = self.u.protos[cn].split("\n")[0].replace(cn + "(", cn + "__rec(") + "\n__RC_%s;" % cn
                cn = cn + "__rec"
        a = self.call_args(md, args)
        return "%s(%s)" % (cn, ", ".join([objs] + a))

    def overrides_virtual(self, md):
        return md.get("name", "").startswith("do") and md.get("name", "")[2:3].isupper()

    def std_method(self, n, oct_, obj, name, args, me, deref=False):
        a = [x for x in args if x.get("kind") != "CXXDefaultArgExpr"]
        av = [self.expr(x) for x in a]
        if oct_ == "ref":
            oq = _strip(self.T.qt(obj["type"]))
            weak = "weak_ptr" in oq or "WeakPtr" in oq
            oe = "(*%s)" % self.expr(obj) if deref else self.expr(obj)
            if name in ("get", "shared_from_this") and not weak:
                return oe
            if name == "operator bool":
                return "(%s != 0)" % oe
            if name == "lock" and weak:
                return "WEAK_LOCK(%s)" % oe
            if name == "expired" and weak:
                return "(WEAK_LOCK(%s) == 0)" % oe
            if name == "reset" and not a:
                return "%s = (ref)0" % oe
            self.bad(n, "smart pointer member %s (weak=%s)" % (name, weak))
        if oct_ == "vstream":
            oe = self.expr(obj)
            if name in ("good", "is_open") and not a:
                return "vstream_good(%s)" % oe
            if name in ("fail", "bad") and not a:
                return "(!vstream_good(%s))" % oe
            if name == "rdbuf" and not a:
                return oe
            if name == "str" and not a:
                return "vstream_str_%s(%s)" % (self.T.STR, oe)
            if name == "close" and not a:
                return "((void)0)"
            self.bad(n, "stream member %s" % name)
        if deref:
            call = "%s_%s(%s%s)" % (oct_, name, self.expr(obj), "".join(", " + v for v in av))
            self.note_call("std::%s::%s" % (oct_, name))
            return "(*%s)" % call if name in ("at", "operator[]", "front", "back") else call
        lv = self.lvalue_or_none(obj)
        fn = "%s_%s" % (oct_, name)
        if oct_ != self.T.STR and name in ("erase", "insert"):
            fn += "_%d" % len(a)
        if oct_ == self.T.STR and name in ("find", "rfind", "erase", "replace", "substr", "insert", "compare", "assign", "append",
                    "find_first_of", "find_first_not_of", "find_last_not_of", "find_last_of", "count"):
            # arity and argument types select the overload
            sfx = []
            for x in a:
                t = self.T._ctype(self.T.qt(x["type"])) or "x"
                if _string_literal(x) is not None and t != self.T.STR:
                    t = "lit"
                sfx.append(self.T.abbr(t) if t != "lit" else "lit")
            fn += "_" + "_".join(sfx) if sfx else ""
            av = [self.str_lit(_string_literal(x)) if _string_literal(x) is not None and (self.T._ctype(self.T.qt(x["type"])) != self.T.STR) else v for x, v in zip(a, av)]
            fn = fn.replace("_lit", "_s")
        self.note_call("std::%s::%s" % (oct_, name))
        is_lv_ret = name in ("at", "operator[]", "front", "back")
        if lv is not None and name == "at" and oct_.startswith("vmap_") and len(av) == 1:
            # map.at(k) as an lvalue expression (no pointer returned through a function)
            return "VMAP_AT(%s, &(%s), %s)" % (oct_, lv, av[0])
        if lv is not None and name in ("at", "operator[]") and oct_.startswith("vvec_") and len(av) == 1:
            # element access is an lvalue expression, not a pointer returned by a function
            return "VEC_%s(%s, &(%s), %s)" % ("AT" if name == "at" else "INDEX", oct_, lv, av[0])
        if lv is not None:
            call = "%s(&(%s)%s)" % (fn, lv, "".join(", " + v for v in av))
        else:
            t = self.newtmp()
            call = "({ %s %s = %s; %s(&%s%s); })" % (oct_, t, self.expr(obj), fn, t, "".join(", " + v for v in av))
            if is_lv_ret:
                call = "({ %s %s = %s; *%s(&%s%s); })" % (oct_, t, self.expr(obj), fn, t, "".join(", " + v for v in av))
                return call
        if is_lv_ret:
            return "(*%s)" % call
        return call

    def e_CXXOperatorCallExpr(self, n):
        callee = _strip_casts(n["inner"][0])
        args = n["inner"][1:]
        op = (callee.get("referencedDecl") or {}).get("name", "")
        a0t = self.T.ctype(args[0]["type"]) if args else None
        if op == "operator->":
            if a0t.startswith("vit_"):
                return "(&VIT_DEREF(%s))" % self.expr(args[0])
            return self.expr(args[0])
        if op == "operator*" and len(args) == 1:
            if a0t == "ref":
                return self.expr(args[0])
            if a0t.startswith("vit_"):
                return "VIT_DEREF(%s)" % self.expr(args[0])
        if op == "operator bool":
            return "(%s != 0)" % self.paren(args[0])
        if op in ("operator==", "operator!=") and len(args) == 2:
            a1t = self.T.ctype(args[1]["type"])
            sym = op[8:]
            if a0t == "ref" and a1t == "ref":
                return "%s %s %s" % (self.paren(args[0]), sym, self.paren(args[1]))
            if a0t.startswith("vit_"):
                return "%s.i %s %s.i" % (self.paren(args[0]), sym, self.paren(args[1]))
            if self.T.STR in (a0t, a1t):
                x = [self.str_lit(_string_literal(v)) if _string_literal(v) is not None else self.expr(v) for v in args]
                e = "%s_eq(%s, %s)" % (self.T.STR, x[0], x[1])
                return e if sym == "==" else "!" + e
            if a0t == a1t:
                e = "%s_eq(%s, %s)" % (a0t, self.expr(args[0]), self.expr(args[1]))
                return e if sym == "==" else "!" + e
        if op == "operator=" and len(args) == 2:
            lhs = self.lvalue(args[0])
            lit = _string_literal(args[1])
            if lit is not None and a0t == self.T.STR:
                return "%s = %s" % (lhs, self.str_lit(lit))
            rhs = _strip_transparent(args[1])
            if rhs.get("kind") == "InitListExpr" and not rhs.get("inner"):
                return "%s = %s" % (lhs, "((ref)0)" if a0t == "ref" else "%s_new()" % a0t)
            return "%s = %s" % (lhs, self.expr(args[1]))
        if op == "operator[]" and len(args) == 2:
            lv = self.lvalue_or_none(args[0])
            if lv is None and a0t.startswith("vvec_"):
                # f()[i]: the temporary lives for the full expression; its element is read as a value
                t = self.newtmp()
                self.note_call("std::%s::operator[]" % a0t)
                return "({ %s %s = %s; VEC_INDEX(%s, &%s, %s); })" % (a0t, t, self.expr(args[0]), a0t, t, self.expr(args[1]))
            if lv is None:
                self.bad(n, "operator[] on temporary")
            self.note_call("std::%s::operator[]" % a0t)
            if a0t.startswith("vvec_"):
                return "VEC_INDEX(%s, &(%s), %s)" % (a0t, lv, self.expr(args[1]))
            return "(*%s_index(&(%s), %s))" % (a0t, lv, self.expr(args[1]))
        if op in ("operator+", "operator-") and len(args) == 2 and a0t.startswith("vit_"):
            a1t = self.T.ctype(args[1]["type"])
            if a1t.startswith("vit_"):
                return "((ptrdiff_t)%s.i - (ptrdiff_t)%s.i)" % (self.paren(args[0]), self.paren(args[1]))
            return "%s_add(%s, %s(%s))" % (a0t, self.expr(args[0]), "-" if op == "operator-" else "", self.expr(args[1]))
        if op in ("operator++", "operator--") and a0t.startswith("vit_"):
            return "%s%s.i" % (op[8:], self.paren(args[0]))
        if op == "operator+" and len(args) == 2 and self.T.STR in (a0t, self.T._ctype(self.T.qt(args[1]["type"]))):
            x = [self.str_lit(_string_literal(v)) if _string_literal(v) is not None else self.expr(v) for v in args]
            return "%s_concat(%s, %s)" % (self.T.STR, x[0], x[1])
        if op == "operator+=" and a0t == self.T.STR:
            lit = _string_literal(args[1])
            rhs = self.str_lit(lit) if lit is not None else self.expr(args[1])
            a1t = self.T._ctype(self.T.qt(args[1]["type"]))
            if a1t == "char":
                return "%s_push_back(&(%s), %s)" % (self.T.STR, self.lvalue(args[0]), rhs)
            return "%s_append_s(&(%s), %s)" % (self.T.STR, self.lvalue(args[0]), rhs)
        if op == "operator<<" and a0t == "vstream" and len(args) == 2:
            a1t = self.T._ctype(self.T.qt(args[1]["type"]))
            if a1t == "vstream":
                return "vstream_put(&(%s), %s)" % (self.lvalue(args[0]), self.expr(args[1]))
        if op in ("operator<", "operator>", "operator<=", "operator>=") and a0t.startswith("vit_"):
            return "%s.i %s %s.i" % (self.paren(args[0]), op[8:], self.paren(args[1]))
        self.bad(n, "overloaded %s on %s" % (op, a0t))


def ea_names(extra_params):
    return "".join(", %s" % p[1] for p in extra_params)


def _ret_of(fn_type):
    """'bool (const std::string &) const' -> 'bool'; 'auto (T) const -> bool' -> 'bool'"""
    if fn_type.startswith("auto (") and "->" in fn_type:
        return fn_type.rsplit("->", 1)[1].strip()
    depth = 0
    for i, ch in enumerate(fn_type):
        if ch == "<":
            depth += 1
        elif ch == ">":
            depth -= 1
        elif ch == "(" and depth == 0:
            return fn_type[:i].strip()
    return fn_type


def _balanced(s):
    if not (s.startswith("(") and s.endswith(")")):
        return True
    d = 0
    for i, ch in enumerate(s):
        if ch == "(":
            d += 1
        elif ch == ")":
            d -= 1
            if d == 0 and i != len(s) - 1:
                return False
    return True


def _strip_casts(n):
    while n.get("kind") in ("ImplicitCastExpr", "ParenExpr") + TRANSPARENT:
        n = n["inner"][0]
    return n


def _strip_transparent(n):
    while n.get("kind") in TRANSPARENT or (n.get("kind") == "ImplicitCastExpr" and n.get("castKind") in ("NoOp", "LValueToRValue", "ConstructorConversion")) or n.get("kind") == "ParenExpr":
        n = n["inner"][0]
    return n


def _string_literal(n):
    """The literal text if n is (a conversion of) a string literal, else None."""
    while True:
        k = n.get("kind")
        if k == "StringLiteral":
            return n["value"]
        if k in TRANSPARENT or k in ("ImplicitCastExpr", "ParenExpr", "CXXFunctionalCastExpr"):
            n = n["inner"][0]
            continue
        if k in ("CXXConstructExpr", "CXXTemporaryObjectExpr"):
            args = [a for a in n.get("inner", []) if a.get("kind") != "CXXDefaultArgExpr"]
            if len(args) == 1:
                n = args[0]
                continue
        return None


def _find_initlist(n):
    while n is not None:
        if n.get("kind") == "InitListExpr":
            return n
        inner = n.get("inner", [])
        n = inner[0] if inner else None
    return None


def _walk(n):
    yield n
    for c in n.get("inner", []):
        if isinstance(c, dict):
            yield from _walk(c)
