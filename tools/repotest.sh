#!/bin/sh
# Rebuild /repo/_build (guard OFF) and run the repository's test suite; prints the failing gtest
# cases so they can be compared with BASELINE.json's always_fail list.
if ! cmake --build /repo/_build -j16 > /tmp/repotest_build.log 2>&1; then
  echo "BUILD FAILED"; grep -E "error|Error" /tmp/repotest_build.log | head -20; exit 1
fi
tail -1 /tmp/repotest_build.log
ctest --test-dir /repo/_build -j8 --timeout 900 2>&1 | grep -E "tests passed|tests failed|Failed|\*\*\*" | head -20
ctest --test-dir /repo/_build --rerun-failed --output-on-failure 2>&1 | grep -E "^\[  FAILED  \] [A-Za-z]+\.[A-Za-z0-9_]+ \(" | sort -u
echo "expected always_fail: Parser.invalidXMLElements Printer.mathMLInResetWithSyntaxError Printer.mathMLWithSyntaxError"
