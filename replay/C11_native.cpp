// C11 native replay: random models built through the public API; clone() of the model and of
// each of its entities is compared with the original:
//   - the printed model of Model::clone() is identical to the original's print
//   - every clone equals() its original (both ways) and has no parent
//   - reset clones keep "order set / not set", component clones keep the encapsulation id
//   - mutating the clone leaves the original's print unchanged
#include <cstdio>
#include <cstdlib>
#include <cstring>
#include <random>
#include <set>
#include <string>
#include <vector>

#include "libcellml/component.h"
#include "libcellml/importsource.h"
#include "libcellml/model.h"
#include "libcellml/printer.h"
#include "libcellml/reset.h"
#include "libcellml/units.h"
#include "libcellml/variable.h"

using namespace libcellml;
static std::mt19937 rng;
static std::string pick(std::initializer_list<const char *> l)
{
    std::vector<const char *> v(l);
    return v[rng() % v.size()];
}
static int counter = 0;
static std::string uniq(const char *p) { return std::string(p) + std::to_string(++counter); }

static UnitsPtr rUnits()
{
    auto u = Units::create(uniq("u"));
    if (rng() % 3 == 0) u->setId(uniq("uid"));
    int n = rng() % 3;
    for (int i = 0; i < n; ++i) u->addUnit(pick({"second", "metre"}), pick({"", "milli", "3"}), rng() % 2 ? 1.0 : 2.0, rng() % 2 ? 1.0 : 1000.0, rng() % 3 ? "" : uniq("ud"));
    return u;
}
static VariablePtr rVariable(const ModelPtr &m)
{
    auto v = Variable::create(uniq("v"));
    if (rng() % 2) v->setInitialValue(pick({"1", "2.5"}));
    if (rng() % 2) v->setInterfaceType(pick({"public", "private", "public_and_private"}));
    if (m->unitsCount() > 0 && rng() % 2) v->setUnits(m->units(rng() % m->unitsCount()));
    else if (rng() % 2) v->setUnits("second");
    if (rng() % 3 == 0) v->setId(uniq("vid"));
    return v;
}
static ComponentPtr rComponent(const ModelPtr &m, int depth)
{
    auto c = Component::create(uniq("c"));
    if (rng() % 3 == 0) c->setMath("<math xmlns=\"http://www.w3.org/1998/Math/MathML\"/>\n");
    if (rng() % 2) c->setEncapsulationId(uniq("enc"));
    if (rng() % 3 == 0) c->setId(uniq("cid"));
    int nv = rng() % 3, nr = rng() % 3, nc = depth > 0 ? rng() % 3 : 0;
    for (int i = 0; i < nv; ++i) c->addVariable(rVariable(m));
    for (int i = 0; i < nr; ++i) {
        auto r = Reset::create();
        if (rng() % 2) r->setOrder(int(rng() % 3) - 1);
        if (nv && rng() % 2) r->setVariable(c->variable(rng() % nv));
        if (nv && rng() % 2) r->setTestVariable(c->variable(rng() % nv));
        if (rng() % 2) r->setTestValue("<math xmlns=\"http://www.w3.org/1998/Math/MathML\"/>\n");
        if (rng() % 2) r->setResetValue("<math xmlns=\"http://www.w3.org/1998/Math/MathML\"/>\n");
        if (rng() % 3 == 0) r->setId(uniq("rid"));
        if (rng() % 3 == 0) r->setTestValueId(uniq("tv"));
        if (rng() % 3 == 0) r->setResetValueId(uniq("rv"));
        c->addReset(r);
    }
    for (int i = 0; i < nc; ++i) c->addComponent(rComponent(m, depth - 1));
    return c;
}

// The serialisation up to the order in which connections (and the map_variables inside one) are written and which of the two
// components is written first: a model's equivalences are a set of unordered pairs, and Model::clone() re-creates them in index order.
static std::string canonical(const std::string &xml)
{
    std::string rest;
    std::multiset<std::string> pairs;
    size_t pos = 0;
    while (true) {
        size_t a = xml.find("  <connection ", pos);
        if (a == std::string::npos) {
            rest += xml.substr(pos);
            break;
        }
        rest += xml.substr(pos, a - pos);
        size_t e = xml.find("</connection>\n", a);
        if (e == std::string::npos) return xml;
        std::string block = xml.substr(a, e - a);
        auto attr = [](const std::string &t, const std::string &name) {
            size_t p = t.find(" " + name + "=\"");
            if (p == std::string::npos) return std::string();
            p += name.size() + 3;
            return t.substr(p, t.find('"', p) - p);
        };
        std::string head = block.substr(0, block.find('\n'));
        std::string c1 = attr(head, "component_1"), c2 = attr(head, "component_2"), cid = attr(head, "id");
        size_t m = 0;
        while ((m = block.find("<map_variables ", m)) != std::string::npos) {
            std::string line = block.substr(m, block.find('\n', m) - m);
            std::string x = c1 + "." + attr(line, "variable_1"), y = c2 + "." + attr(line, "variable_2");
            if (y < x) std::swap(x, y);
            pairs.insert(x + " ~ " + y + " mapid=" + attr(line, "id") + " connid=" + cid);
            ++m;
        }
        pos = e + strlen("</connection>\n");
    }
    for (auto &p : pairs) rest += p + "\n";
    return rest;
}

static bool fail(const char *what, const std::string &detail)
{
    printf("CLONEFUZZ violates=1 what=%s detail=%s\n", what, detail.substr(0, 400).c_str());
    return true;
}

static bool checkComponentTree(const ComponentPtr &c)
{
    auto cc = c->clone();
    if (cc->parent() != nullptr) return fail("component clone has a parent", c->name());
    if (!cc->equals(c) || !c->equals(cc)) return fail("component clone does not equal the original", c->name());
    if (cc->encapsulationId() != c->encapsulationId()) return fail("component clone lost the encapsulation id", c->name() + " id=" + c->encapsulationId());
    for (size_t i = 0; i < c->resetCount(); ++i) {
        auto r = c->reset(i);
        auto rc = r->clone();
        if (rc->isOrderSet() != r->isOrderSet()) return fail("reset clone changes whether the order is set", c->name());
        if (rc->parent() != nullptr) return fail("reset clone has a parent", c->name());
        if (!rc->equals(r) || !r->equals(rc)) return fail("reset clone does not equal the original", c->name());
        if (cc->reset(i)->isOrderSet() != r->isOrderSet()) return fail("reset inside a cloned component changes whether the order is set", c->name());
        if (r->variable() && r->variable()->parent() == c) {
            auto rv = cc->reset(i)->variable();
            if (!rv || rv->parent() != cc) return fail("cloned reset does not refer to the clone's own variable", c->name());
        }
    }
    for (size_t i = 0; i < c->variableCount(); ++i) {
        auto v = c->variable(i);
        auto vc = v->clone();
        if (vc->parent() != nullptr) return fail("variable clone has a parent", v->name());
        if (!vc->equals(v) || !v->equals(vc)) return fail("variable clone does not equal the original", v->name());
        if (vc->units() && vc->units() == v->units() && v->units()->parent()) return fail("variable clone shares the original's units object", v->name());
        if (cc->variable(i) == v) return fail("cloned component lists the original's variable", v->name());
    }
    for (size_t i = 0; i < c->componentCount(); ++i)
        if (checkComponentTree(c->component(i))) return true;
    return false;
}

int main(int argc, char **argv)
{
    if (argc >= 2 && !strcmp(argv[1], "fuzz")) {
        rng.seed(argc > 2 ? unsigned(atol(argv[2])) : 0);
        long n = argc > 3 ? atol(argv[3]) : 2000;
        auto printer = Printer::create();
        for (long t = 0; t < n; ++t) {
            auto m = Model::create(uniq("m"));
            if (rng() % 2) m->setEncapsulationId(uniq("menc"));
            if (rng() % 3 == 0) m->setId(uniq("mid"));
            int nu = rng() % 3, nc = 1 + rng() % 3;
            for (int i = 0; i < nu; ++i) m->addUnits(rUnits());
            for (int i = 0; i < nc; ++i) m->addComponent(rComponent(m, 2));
            // equivalences between variables of different components at any depth: chains, stars and CYCLES
            std::vector<VariablePtr> vars;
            std::vector<ComponentPtr> todo;
            for (size_t i = 0; i < m->componentCount(); ++i) todo.push_back(m->component(i));
            while (!todo.empty()) {
                auto c = todo.back();
                todo.pop_back();
                for (size_t j = 0; j < c->variableCount(); ++j) vars.push_back(c->variable(j));
                for (size_t j = 0; j < c->componentCount(); ++j) todo.push_back(c->component(j));
            }
            int ne = rng() % 6;
            for (int e = 0; e < ne && vars.size() > 1; ++e) {
                auto a = vars[rng() % vars.size()], b = vars[rng() % vars.size()];
                if (a != b && a->parent() != b->parent()) Variable::addEquivalence(a, b);
            }
            if (vars.size() >= 3 && rng() % 2) {
                // a triangle when three variables of three different components exist
                for (size_t x = 0; x + 2 < vars.size(); ++x)
                    if (vars[x]->parent() != vars[x + 1]->parent() && vars[x + 1]->parent() != vars[x + 2]->parent() && vars[x]->parent() != vars[x + 2]->parent()) {
                        Variable::addEquivalence(vars[x], vars[x + 1]);
                        Variable::addEquivalence(vars[x + 1], vars[x + 2]);
                        Variable::addEquivalence(vars[x + 2], vars[x]);
                        break;
                    }
            }
            std::string before = printer->printModel(m);
            auto mc = m->clone();
            std::string after = printer->printModel(m);
            std::string cloned = printer->printModel(mc);
            if (before != after) return fail("Model::clone changed the original's serialisation", before), 0;
            if (canonical(cloned) != canonical(before)) return fail("serialisation of Model::clone differs in content from the original's (connections compared as a set)", "--- original\n" + before + "--- clone\n" + cloned), 0;
            if (mc->parent() != nullptr) return fail("model clone has a parent", ""), 0;
            if (!mc->equals(m) || !m->equals(mc)) return fail("model clone does not equal the original", before), 0;
            for (size_t i = 0; i < m->componentCount(); ++i)
                if (checkComponentTree(m->component(i))) return 0;
            for (size_t i = 0; i < m->unitsCount(); ++i) {
                auto u = m->units(i);
                auto uc = u->clone();
                if (uc->parent() != nullptr) return fail("units clone has a parent", u->name()), 0;
                if (!uc->equals(u) || !u->equals(uc)) return fail("units clone does not equal the original", u->name()), 0;
            }
            // independence: mutate the clone, the original must print as before
            if (mc->componentCount()) {
                mc->component(0)->setName("changed");
                if (mc->component(0)->variableCount()) mc->component(0)->variable(0)->setInitialValue("99");
                if (mc->unitsCount()) mc->units(0)->setName("changed_units");
                if (printer->printModel(m) != before) return fail("mutating the clone changed the original's serialisation", before), 0;
            }
        }
        printf("CLONEFUZZ violates=0 models=%ld\n", n);
        return 0;
    }
    return 2;
}
