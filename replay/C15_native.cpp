// C15 native side.
//  sim <seed> <n>    : random histories of addIssue (all three levels) and removeError on the REAL
//                      Logger::LoggerImpl; after every step the public accessors are compared
//                      with an independent shadow list.  Prints the first failing history.
//  imports <dir>     : permissive and strict importers resolve component / units imports from CellML 1.1 and 2.0
//                      documents with and without parse errors (files written to <dir>); after each call the
//                      importer's accessors must be coherent and a false result must come with an issue.
//  lookups           : Annotator::item(id, index) / item(id) / component(id, index) for identifiers carried by 0, 1, 2 items and
//                      indices 0..3 (each scenario in a child process: a crash is a finding): an undefined/null result must
//                      come with an issue, a defined result must be an item that carries the identifier.
//  rules             : calls Issue::referenceHeading()/url() for every ReferenceRule value.
#include <cstdio>
#include <cstdlib>
#include <cstring>
#include <random>
#include <string>
#include <vector>

#include <fstream>
#include <sys/wait.h>
#include <unistd.h>

#include "libcellml/annotator.h"
#include "libcellml/variable.h"

#include "libcellml/component.h"
#include "libcellml/importer.h"
#include "libcellml/importsource.h"
#include "libcellml/issue.h"
#include "libcellml/logger.h"
#include "libcellml/model.h"
#include "libcellml/parser.h"
#include "libcellml/units.h"

#include "issue_p.h"
#include "logger_p.h"

using namespace libcellml;

struct TestLogger: public Logger
{
    TestLogger()
        : Logger(new LoggerImpl())
    {
    }
    ~TestLogger() override
    {
        delete pFunc();
    }
    LoggerImpl *impl()
    {
        return pFunc();
    }
};

static bool coherent(TestLogger &L, const std::vector<IssuePtr> &shadow, std::string &why)
{
    size_t ne = 0, nw = 0, nm = 0;
    for (auto &i : shadow) {
        if (i->level() == Issue::Level::ERROR) ++ne;
        else if (i->level() == Issue::Level::WARNING) ++nw;
        else ++nm;
    }
    if (L.issueCount() != shadow.size()) { why = "issueCount differs from the number of issues added"; return false; }
    if (L.issueCount() != L.errorCount() + L.warningCount() + L.messageCount()) { why = "issueCount != errorCount+warningCount+messageCount"; return false; }
    if (L.errorCount() != ne || L.warningCount() != nw || L.messageCount() != nm) { why = "per-level count differs"; return false; }
    size_t ke = 0, kw = 0, km = 0;
    for (size_t k = 0; k < shadow.size(); ++k) {
        if (L.issue(k) != shadow[k]) { why = "issue(k) is not the k-th issue"; return false; }
        auto lv = shadow[k]->level();
        IssuePtr got = lv == Issue::Level::ERROR ? L.error(ke++) : lv == Issue::Level::WARNING ? L.warning(kw++) : L.message(km++);
        if (got != shadow[k]) { why = "error(i)/warning(i)/message(i) does not enumerate the issues of that level in order"; return false; }
    }
    if (L.issue(shadow.size()) != nullptr || L.error(ne) != nullptr || L.warning(nw) != nullptr || L.message(nm) != nullptr) { why = "out-of-range index does not return null"; return false; }
    return true;
}

// coherence of any Logger through the public accessors only
static bool publicCoherent(const LoggerPtr &L, std::string &why)
{
    try {
        size_t total = L->issueCount();
        if (total != L->errorCount() + L->warningCount() + L->messageCount()) { why = "issueCount != errorCount+warningCount+messageCount"; return false; }
        size_t ke = 0, kw = 0, km = 0;
        for (size_t k = 0; k < total; ++k) {
            auto i = L->issue(k);
            if (i == nullptr) { why = "issue(k) is null for k < issueCount()"; return false; }
            if (i->description().empty()) { why = "an issue has an empty description"; return false; }
            auto lv = i->level();
            IssuePtr got = lv == Issue::Level::ERROR ? L->error(ke++) : lv == Issue::Level::WARNING ? L->warning(kw++) : L->message(km++);
            if (got != i) { why = "error(i)/warning(i)/message(i) does not enumerate the issues of that level in order"; return false; }
        }
        if (ke != L->errorCount() || kw != L->warningCount() || km != L->messageCount()) { why = "per-level count differs from the issues of that level"; return false; }
        if (L->issue(total) != nullptr || L->error(ke) != nullptr || L->warning(kw) != nullptr || L->message(km) != nullptr) { why = "out-of-range index does not return null"; return false; }
    } catch (const std::exception &e) {
        why = std::string("a Logger accessor threw ") + e.what();
        return false;
    }
    return true;
}

static std::string libraryDoc(const std::string &ns, bool unrelatedError, bool targetError, bool unitsError)
{
    std::string s = "<?xml version=\"1.0\" encoding=\"UTF-8\"?>\n<model xmlns=\"http://www.cellml.org/cellml/" + ns + "#\" name=\"library\">\n";
    s += "  <units name=\"u\"><unit units=\"second\"/>" + std::string(unitsError ? "<unit/>" : "") + "</units>\n";
    s += "  <component name=\"good\"><variable name=\"x\" units=\"second\"/>" + std::string(targetError ? "<variable units=\"second\"/>" : "") + "</component>\n";
    if (unrelatedError) s += "  <component name=\"noisy\"><variable units=\"second\"/><variable units=\"second\"/></component>\n";
    return s + "</model>\n";
}

int main(int argc, char **argv)
{
    if (argc >= 3 && !strcmp(argv[1], "imports")) {
        std::string dir = std::string(argv[2]) + "/";
        int scenarios = 0;
        for (int mask = 0; mask < 64; ++mask) {
            bool v11 = mask & 1, unrelated = mask & 2, target = mask & 4, unitsErr = mask & 8, strict = mask & 16, missing = mask & 32;
            { std::ofstream o(dir + "lib.xml"); o << libraryDoc(v11 ? "1.1" : "2.0", unrelated, target, unitsErr); }
            std::string main = "<?xml version=\"1.0\" encoding=\"UTF-8\"?>\n<model xmlns=\"http://www.cellml.org/cellml/2.0#\" xmlns:xlink=\"http://www.w3.org/1999/xlink\" name=\"main\">\n"
                               "  <import xlink:href=\"lib.xml\"><component name=\"c1\" component_ref=\"good\"/></import>\n"
                               "  <import xlink:href=\"lib.xml\"><units name=\"u1\" units_ref=\"u\"/></import>\n";
            if (missing) main += "  <import xlink:href=\"nowhere.xml\"><component name=\"c2\" component_ref=\"zz\"/></import>\n";
            main += "</model>\n";
            auto parser = Parser::create();
            auto model = parser->parseModel(main);
            auto importer = Importer::create(strict);
            bool ok = importer->resolveImports(model, dir);
            ++scenarios;
            std::string why;
            char tag[200];
            snprintf(tag, sizeof(tag), "cellml%s,%s%s%s%s%s", v11 ? "1.1" : "2.0", strict ? "strict" : "permissive", unrelated ? ",unrelated-parse-errors" : "", target ? ",error-in-imported-component" : "",
                     unitsErr ? ",error-in-imported-units" : "", missing ? ",missing-file" : "");
            if (!publicCoherent(importer, why)) {
                printf("IMPORTS violates=1 scenario=%s why=%s (issues=%zu errors=%zu warnings=%zu messages=%zu)\n", tag, why.c_str(), importer->issueCount(), importer->errorCount(), importer->warningCount(), importer->messageCount());
                return 0;
            }
            if (!ok && importer->issueCount() == 0) {
                printf("IMPORTS violates=1 scenario=%s why=resolveImports returned false with an empty issue list\n", tag);
                return 0;
            }
        }
        printf("IMPORTS violates=0 scenarios=%d\n", scenarios);
        return 0;
    }
    if (argc >= 2 && !strcmp(argv[1], "sim")) {
        unsigned seed = argc > 2 ? unsigned(atol(argv[2])) : 0;
        long n = argc > 3 ? atol(argv[3]) : 20000;
        std::mt19937 rng(seed);
        for (long t = 0; t < n; ++t) {
            TestLogger L;
            std::vector<IssuePtr> shadow;
            std::string hist;
            int len = 1 + int(rng() % 10);
            for (int s = 0; s < len; ++s) {
                unsigned op = rng() % 8;
                if (op == 7 && !shadow.empty() && shadow.back()->level() == Issue::Level::ERROR) {
                    // the only use the code makes of removeError: drop the last issue, an error
                    L.impl()->removeError(L.errorCount() - 1);
                    shadow.pop_back();
                    hist += "R";
                } else {
                    auto i = Issue::IssueImpl::create();
                    auto lv = Issue::Level(op % 3);
                    i->mPimpl->setLevel(lv);
                    L.impl()->addIssue(i);
                    shadow.push_back(i);
                    hist += lv == Issue::Level::ERROR ? "E" : lv == Issue::Level::WARNING ? "W" : "M";
                }
                std::string why;
                bool ok = false;
                try {
                    ok = coherent(L, shadow, why);
                } catch (const std::exception &e) {
                    why = std::string("an accessor threw ") + e.what();
                }
                if (!ok) {
                    printf("SIM violates=1 history=%s why=%s\n", hist.c_str(), why.c_str());
                    return 0;
                }
            }
            if (t % 7 == 0) {
                L.impl()->removeAllIssues();
                shadow.clear();
                std::string why;
                if (!coherent(L, shadow, why)) {
                    printf("SIM violates=1 history=%s+removeAllIssues why=%s\n", hist.c_str(), why.c_str());
                    return 0;
                }
            }
        }
        printf("SIM violates=0 histories=%ld\n", n);
        return 0;
    }
    if (argc >= 2 && !strcmp(argv[1], "lookups")) {
        int scenarios = 0;
        for (int count = 0; count <= 2; ++count) {
            for (int index = -1; index <= 3; ++index) {      // -1: the unique lookup item(id)
                for (int kind = 0; kind < 2; ++kind) {        // 0: item(), 1: component()
                    ++scenarios;
                    fflush(stdout);
                    pid_t pid = fork();
                    if (pid == 0) {
                        auto m = Model::create("m");
                        for (int k = 0; k < 3; ++k) {
                            auto c = Component::create("c" + std::to_string(k));
                            c->setId(k < count ? "theid" : "other" + std::to_string(k));
                            m->addComponent(c);
                        }
                        auto a = Annotator::create();
                        a->setModel(m);
                        bool defined, right = true;
                        if (kind == 0) {
                            auto it = index < 0 ? a->item("theid") : a->item("theid", size_t(index));
                            defined = it != nullptr && it->type() != CellmlElementType::UNDEFINED;
                            if (defined) right = it->component() != nullptr && it->component()->id() == "theid";
                        } else {
                            auto c = index < 0 ? a->component("theid") : a->component("theid", size_t(index));
                            defined = c != nullptr;
                            if (defined) right = c->id() == "theid";
                        }
                        std::string whyNot;
                        if (!publicCoherent(a, whyNot)) _exit(6);
                        if (!defined && a->issueCount() == 0) _exit(3);
                        if (defined && !right) _exit(4);
                        bool expectDefined = index < 0 ? count == 1 : index < count;
                        if (defined != expectDefined) _exit(5);
                        _exit(0);
                    }
                    int st = 0;
                    waitpid(pid, &st, 0);
                    const char *why = nullptr;
                    if (WIFSIGNALED(st)) why = "the real code crashed (signal)";
                    else if (WEXITSTATUS(st) == 3) why = "the lookup failed (undefined item / null) with an empty issue list";
                    else if (WEXITSTATUS(st) == 4) why = "the lookup returned an item that does not carry the identifier";
                    else if (WEXITSTATUS(st) == 6) why = "after the lookup the annotator's issue accessors are incoherent (an issue listed under a level it does not have, counts that do not add up, or an accessor that throws)";
                    else if (WEXITSTATUS(st) == 5) why = "the lookup result does not match the number of items carrying the identifier";
                    if (why) {
                        printf("LOOKUPS violates=1 scenario=%s(\"theid\"%s%s),items-with-that-id=%d why=%s%s\n", kind ? "component" : "item", index < 0 ? "" : ",", index < 0 ? "" : std::to_string(index).c_str(), count, why,
                               WIFSIGNALED(st) ? (" " + std::to_string(WTERMSIG(st))).c_str() : "");
                        return 0;
                    }
                }
            }
        }
        printf("LOOKUPS violates=0 scenarios=%d\n", scenarios);
        return 0;
    }
    if (argc >= 2 && !strcmp(argv[1], "rules")) {
        int last = argc > 2 ? atoi(argv[2]) : 200;
        int bad = 0, done = 0;
        for (int r = 0; r <= last; ++r) {
            auto i = Issue::IssueImpl::create();
            i->mPimpl->setReferenceRule(Issue::ReferenceRule(r));
            try {
                std::string h = i->referenceHeading();
                std::string u = i->url();
                ++done;
            } catch (const std::exception &e) {
                ++bad;
                printf("RULE value=%d throws=%s\n", r, e.what());
            }
        }
        printf("RULES checked=%d ok=%d bad=%d\n", last + 1, done, bad);
        return 0;
    }
    return 2;
}
