// C15 native side.
//  sim <seed> <n>    : random histories of addIssue (all three levels) and removeError on the REAL
//                      Logger::LoggerImpl; after every step the public accessors are compared
//                      with an independent shadow list.  Prints the first failing history.
//  rules             : calls Issue::referenceHeading()/url() for every ReferenceRule value.
#include <cstdio>
#include <cstdlib>
#include <cstring>
#include <random>
#include <string>
#include <vector>

#include "libcellml/issue.h"
#include "libcellml/logger.h"

#include "issue_p.h"
#include "logger_p.h"

using namespace libcellml;

struct TestLogger: public Logger
{
    TestLogger()
        : Logger(new LoggerImpl())
    {
    }
    ~TestLogger() override
    {
        delete pFunc();
    }
    LoggerImpl *impl()
    {
        return pFunc();
    }
};

static bool coherent(TestLogger &L, const std::vector<IssuePtr> &shadow, std::string &why)
{
    size_t ne = 0, nw = 0, nm = 0;
    for (auto &i : shadow) {
        if (i->level() == Issue::Level::ERROR) ++ne;
        else if (i->level() == Issue::Level::WARNING) ++nw;
        else ++nm;
    }
    if (L.issueCount() != shadow.size()) { why = "issueCount differs from the number of issues added"; return false; }
    if (L.issueCount() != L.errorCount() + L.warningCount() + L.messageCount()) { why = "issueCount != errorCount+warningCount+messageCount"; return false; }
    if (L.errorCount() != ne || L.warningCount() != nw || L.messageCount() != nm) { why = "per-level count differs"; return false; }
    size_t ke = 0, kw = 0, km = 0;
    for (size_t k = 0; k < shadow.size(); ++k) {
        if (L.issue(k) != shadow[k]) { why = "issue(k) is not the k-th issue"; return false; }
        auto lv = shadow[k]->level();
        IssuePtr got = lv == Issue::Level::ERROR ? L.error(ke++) : lv == Issue::Level::WARNING ? L.warning(kw++) : L.message(km++);
        if (got != shadow[k]) { why = "error(i)/warning(i)/message(i) does not enumerate the issues of that level in order"; return false; }
    }
    if (L.issue(shadow.size()) != nullptr || L.error(ne) != nullptr || L.warning(nw) != nullptr || L.message(nm) != nullptr) { why = "out-of-range index does not return null"; return false; }
    return true;
}

int main(int argc, char **argv)
{
    if (argc >= 2 && !strcmp(argv[1], "sim")) {
        unsigned seed = argc > 2 ? unsigned(atol(argv[2])) : 0;
        long n = argc > 3 ? atol(argv[3]) : 20000;
        std::mt19937 rng(seed);
        for (long t = 0; t < n; ++t) {
            TestLogger L;
            std::vector<IssuePtr> shadow;
            std::string hist;
            int len = 1 + int(rng() % 10);
            for (int s = 0; s < len; ++s) {
                unsigned op = rng() % 8;
                if (op == 7 && !shadow.empty() && shadow.back()->level() == Issue::Level::ERROR) {
                    // the only use the code makes of removeError: drop the last issue, an error
                    L.impl()->removeError(L.errorCount() - 1);
                    shadow.pop_back();
                    hist += "R";
                } else {
                    auto i = Issue::IssueImpl::create();
                    auto lv = Issue::Level(op % 3);
                    i->mPimpl->setLevel(lv);
                    L.impl()->addIssue(i);
                    shadow.push_back(i);
                    hist += lv == Issue::Level::ERROR ? "E" : lv == Issue::Level::WARNING ? "W" : "M";
                }
                std::string why;
                bool ok = false;
                try {
                    ok = coherent(L, shadow, why);
                } catch (const std::exception &e) {
                    why = std::string("an accessor threw ") + e.what();
                }
                if (!ok) {
                    printf("SIM violates=1 history=%s why=%s\n", hist.c_str(), why.c_str());
                    return 0;
                }
            }
            if (t % 7 == 0) {
                L.impl()->removeAllIssues();
                shadow.clear();
                std::string why;
                if (!coherent(L, shadow, why)) {
                    printf("SIM violates=1 history=%s+removeAllIssues why=%s\n", hist.c_str(), why.c_str());
                    return 0;
                }
            }
        }
        printf("SIM violates=0 histories=%ld\n", n);
        return 0;
    }
    if (argc >= 2 && !strcmp(argv[1], "rules")) {
        int last = argc > 2 ? atoi(argv[2]) : 200;
        int bad = 0, done = 0;
        for (int r = 0; r <= last; ++r) {
            auto i = Issue::IssueImpl::create();
            i->mPimpl->setReferenceRule(Issue::ReferenceRule(r));
            try {
                std::string h = i->referenceHeading();
                std::string u = i->url();
                ++done;
            } catch (const std::exception &e) {
                ++bad;
                printf("RULE value=%d throws=%s\n", r, e.what());
            }
        }
        printf("RULES checked=%d ok=%d bad=%d\n", last + 1, done, bad);
        return 0;
    }
    return 2;
}
