// C10 native replay: builds the situation of a counterexample through the public API of the real
// library and evaluates equals() in both directions.
//   sizes <kind> <na> <nb> : two containers of <kind> (component-variables | component-resets |
//                            component-components | model-units | model-components | units-unit)
//                            whose other attributes agree, with na resp. nb equal children
//   fuzz <seed> <n>        : random pairs/triples of small entities of every class; checks
//                            reflexivity, symmetry, transitivity and single-attribute sensitivity
#include <cstdio>
#include <cstdlib>
#include <cstring>
#include <random>
#include <string>
#include <vector>

#include "libcellml/component.h"
#include "libcellml/importsource.h"
#include "libcellml/model.h"
#include "libcellml/reset.h"
#include "libcellml/units.h"
#include "libcellml/variable.h"

using namespace libcellml;

static void addChildren(const std::string &kind, const ComponentPtr &c, const ModelPtr &m, const UnitsPtr &u, int n)
{
    for (int i = 0; i < n; ++i) {
        if (kind == "component-variables") c->addVariable(Variable::create("v"));
        else if (kind == "component-resets") c->addReset(Reset::create());
        else if (kind == "component-components") c->addComponent(Component::create("k"));
        else if (kind == "model-units") m->addUnits(Units::create("u"));
        else if (kind == "model-components") m->addComponent(Component::create("k"));
        else if (kind == "units-unit") u->addUnit("second");
    }
}

static std::mt19937 rng;
static std::string pick(std::initializer_list<const char *> l)
{
    std::vector<const char *> v(l);
    return v[rng() % v.size()];
}
static UnitsPtr rUnits()
{
    auto u = Units::create(pick({"u", "w"}));
    if (rng() % 3 == 0) u->setId(pick({"", "i"}));
    int n = rng() % 3;
    for (int i = 0; i < n; ++i) u->addUnit(pick({"second", "metre"}), pick({"", "milli"}), rng() % 2 ? 1.0 : 2.0, rng() % 2 ? 1.0 : 1000.0, pick({"", "x"}));
    return u;
}
static VariablePtr rVariable()
{
    auto v = Variable::create(pick({"a", "b"}));
    if (rng() % 2) v->setInitialValue(pick({"1", "2"}));
    if (rng() % 2) v->setInterfaceType(pick({"public", "private"}));
    if (rng() % 2) v->setUnits(rUnits());
    if (rng() % 3 == 0) v->setId(pick({"", "i"}));
    return v;
}
static ResetPtr rReset()
{
    auto r = Reset::create();
    if (rng() % 2) r->setOrder(int(rng() % 2));
    if (rng() % 2) r->setVariable(rVariable());
    if (rng() % 2) r->setTestVariable(rVariable());
    if (rng() % 2) r->setTestValue(pick({"<math/>", "x"}));
    if (rng() % 2) r->setResetValue(pick({"<math/>", "y"}));
    if (rng() % 3 == 0) r->setTestValueId("t");
    if (rng() % 3 == 0) r->setResetValueId("r");
    return r;
}
static ComponentPtr rComponent(int depth)
{
    auto c = Component::create(pick({"c", "d"}));
    if (rng() % 3 == 0) c->setMath(pick({"<math/>", "m"}));
    if (rng() % 4 == 0) c->setEncapsulationId("e");
    if (rng() % 5 == 0) {
        auto is = ImportSource::create();
        is->setUrl(pick({"a.cellml", "b.cellml"}));
        c->setImportSource(is);
        c->setImportReference(pick({"x", "y"}));
    }
    int nv = rng() % 3, nr = rng() % 2, nc = depth > 0 ? rng() % 2 : 0;
    for (int i = 0; i < nv; ++i) c->addVariable(rVariable());
    for (int i = 0; i < nr; ++i) c->addReset(rReset());
    for (int i = 0; i < nc; ++i) c->addComponent(rComponent(depth - 1));
    return c;
}
static ModelPtr rModel()
{
    auto m = Model::create(pick({"m", "n"}));
    int nu = rng() % 3, nc = rng() % 3;
    for (int i = 0; i < nu; ++i) m->addUnits(rUnits());
    for (int i = 0; i < nc; ++i) m->addComponent(rComponent(1));
    return m;
}
static EntityPtr rEntity(int k)
{
    switch (k) {
    case 0: return rVariable();
    case 1: return rUnits();
    case 2: return rReset();
    case 3: return rComponent(1);
    default: return rModel();
    }
}

int main(int argc, char **argv)
{
    if (argc >= 5 && !strcmp(argv[1], "sizes")) {
        std::string kind = argv[2];
        int na = atoi(argv[3]), nb = atoi(argv[4]);
        auto ca = Component::create("c"), cb = Component::create("c");
        auto ma = Model::create("m"), mb = Model::create("m");
        auto ua = Units::create("u"), ub = Units::create("u");
        addChildren(kind, ca, ma, ua, na);
        addChildren(kind, cb, mb, ub, nb);
        EntityPtr a = kind.rfind("component-", 0) == 0 ? EntityPtr(ca) : kind.rfind("model-", 0) == 0 ? EntityPtr(ma) : EntityPtr(ua);
        EntityPtr b = kind.rfind("component-", 0) == 0 ? EntityPtr(cb) : kind.rfind("model-", 0) == 0 ? EntityPtr(mb) : EntityPtr(ub);
        bool ab = a->equals(b), ba = b->equals(a);
        bool violates = (na != nb) && (ab || ba);
        printf("REPLAY kind=%s na=%d nb=%d a.equals(b)=%d b.equals(a)=%d violates=%d\n", kind.c_str(), na, nb, ab, ba, violates ? 1 : 0);
        return 0;
    }
    if (argc >= 3 && !strcmp(argv[1], "dupchild")) {
        // child components are compared by containment, not as multisets:
        //   a = {k("c"), k("c")}, b = {k("c"), k("d")}: every child of a is contained in b
        ComponentEntityPtr a, b;
        if (!strcmp(argv[2], "model")) { a = Model::create("m"); b = Model::create("m"); }
        else { a = Component::create("p"); b = Component::create("p"); }
        a->addComponent(Component::create("c"));
        a->addComponent(Component::create("c"));
        b->addComponent(Component::create("c"));
        b->addComponent(Component::create("d"));
        bool ab = a->equals(b), ba = b->equals(a);
        printf("REPLAY dupchild %s a={c,c} b={c,d} a.equals(b)=%d b.equals(a)=%d violates=%d\n", argv[2], ab, ba, (ab != ba || ab) ? 1 : 0);
        return 0;
    }
    if (argc >= 2 && !strcmp(argv[1], "fuzz")) {
        rng.seed(argc > 2 ? unsigned(atol(argv[2])) : 0);
        long n = argc > 3 ? atol(argv[3]) : 20000;
        long asym = 0, nonrefl = 0, nontrans = 0, pairs = 0, eqpairs = 0;
        std::string firstAsym;
        for (long t = 0; t < n; ++t) {
            int k = rng() % 5;
            auto a = rEntity(k), b = rEntity(k), c = rEntity(k);
            ++pairs;
            if (!a->equals(a)) ++nonrefl;
            bool ab = a->equals(b), ba = b->equals(a);
            if (ab) ++eqpairs;
            if (ab != ba) {
                if (!asym) firstAsym = "class " + std::to_string(k);
                ++asym;
            }
            if (ab && b->equals(c) && !a->equals(c)) ++nontrans;
        }
        printf("FUZZ pairs=%ld equal_pairs=%ld not_reflexive=%ld asymmetric=%ld not_transitive=%ld first_asymmetric=%s\n", pairs, eqpairs, nonrefl, asym, nontrans,
               firstAsym.c_str());
        return 0;
    }
    return 2;
}
