// C18 native replay: confirm (or refute) a colliding address quadruple against the cache-key
// computation of the compiled library (hook exported under LIBCELLML_VERIF).
#include <cstdint>
#include <cstdio>
#include <cstdlib>
#include <utility>

namespace libcellml {
std::pair<uintptr_t, uintptr_t> verifEquivalentVariablesCacheKey(uintptr_t v1, uintptr_t v2);
}

int main(int argc, char **argv)
{
    if (argc < 5) {
        fprintf(stderr, "usage: a b c d\n");
        return 2;
    }
    uintptr_t a = strtoull(argv[1], nullptr, 0), b = strtoull(argv[2], nullptr, 0), c = strtoull(argv[3], nullptr, 0), d = strtoull(argv[4], nullptr, 0);
    auto k1 = libcellml::verifEquivalentVariablesCacheKey(a, b);
    auto k2 = libcellml::verifEquivalentVariablesCacheKey(c, d);
    bool samePair = (a == c && b == d) || (a == d && b == c);
    bool sameKey = k1 == k2;
    printf("REPLAY a=%#lx b=%#lx c=%#lx d=%#lx same_pair=%d same_key=%d violates=%d\n", a, b, c, d, samePair, sameKey, samePair != sameKey);
    return 0;
}
