// C18 native replay: confirm (or refute) a colliding address quadruple against the cache-key
// computation of the compiled library (hook exported under LIBCELLML_VERIF).
#include <cstdint>
#include <cstdio>
#include <cstdlib>
#include <utility>
#include <algorithm>
#include <cstring>
#include <random>
#include <set>
#include <string>
#include <vector>

#include "libcellml/analyser.h"
#include "libcellml/analysermodel.h"
#include "libcellml/component.h"
#include "libcellml/model.h"
#include "libcellml/variable.h"

namespace libcellml {
std::pair<uintptr_t, uintptr_t> verifEquivalentVariablesCacheKey(uintptr_t v1, uintptr_t v2);
}

// search <seed> <n>: random equivalence networks; every ordered pair, shuffled, asked twice, against independent reachability
using namespace libcellml;
static int searchMode(int argc, char **argv)
{
    std::mt19937 rng(argc > 2 ? unsigned(atol(argv[2])) : 0);
    long n = argc > 3 ? atol(argv[3]) : 3000;
    for (long t = 0; t < n; ++t) {
        auto m = Model::create("m");
        int nv = 2 + rng() % 6;
        std::vector<VariablePtr> vars;
        ComponentPtr lastComponent;
        for (int i = 0; i < nv; ++i) {
            // one or two variables per component (two variables of one component can only be linked indirectly)
            auto c = (lastComponent != nullptr && rng() % 3 == 0) ? lastComponent : Component::create("c" + std::to_string(i));
            auto v = Variable::create("v" + std::to_string(i));
            v->setUnits("second");
            c->addVariable(v);
            if (c != lastComponent) m->addComponent(c);
            lastComponent = c;
            vars.push_back(v);
        }
        int ne = rng() % (2 * nv);
        std::string edges;
        for (int e = 0; e < ne; ++e) {
            int a = rng() % nv, b = rng() % nv;
            if (a != b && vars[a]->parent() != vars[b]->parent()) {
                Variable::addEquivalence(vars[a], vars[b]);
                edges += std::to_string(a) + "-" + std::to_string(b) + " ";
            }
        }
        // independent reachability from the public equivalence lists
        std::vector<std::vector<bool>> reach(nv, std::vector<bool>(nv, false));
        for (int s = 0; s < nv; ++s) {
            std::vector<int> st{s};
            reach[s][s] = true;
            while (!st.empty()) {
                int x = st.back();
                st.pop_back();
                for (size_t j = 0; j < vars[x]->equivalentVariableCount(); ++j) {
                    auto w = vars[x]->equivalentVariable(j);
                    for (int y = 0; y < nv; ++y)
                        if (vars[y] == w && !reach[s][y]) {
                            reach[s][y] = true;
                            st.push_back(y);
                        }
                }
            }
        }
        // every ordered pair, in a random order, asked twice
        std::vector<std::pair<int, int>> pairs;
        for (int a = 0; a < nv; ++a)
            for (int b = 0; b < nv; ++b) pairs.emplace_back(a, b);
        std::shuffle(pairs.begin(), pairs.end(), rng);
        for (int rep = 0; rep < 2; ++rep)
            for (auto &p : pairs) {
                bool got = vars[p.first]->hasEquivalentVariable(vars[p.second], true);
                bool want = p.first != p.second && reach[p.first][p.second];
                if (got != want) {
                    printf("SEARCH violates=1 what=v%d->hasEquivalentVariable(v%d, true) is %s but the variables are %s by a chain of equivalences (%d variables, equivalences added: %s; network %ld)\n", p.first, p.second,
                           got ? "true" : "false", want ? "linked" : "not linked", nv, edges.c_str(), t);
                    return 0;
                }
            }
        // the analyser model's cached query: same answers (plus the reflexive case), in the same shuffled order, twice
        auto analyser = Analyser::create();
        analyser->analyseModel(m);
        auto am = analyser->model();
        if (am != nullptr) {
            for (int rep = 0; rep < 2; ++rep)
                for (auto &p : pairs) {
                    bool got = am->areEquivalentVariables(vars[p.first], vars[p.second]);
                    bool want = reach[p.first][p.second];
                    if (got != want) {
                        printf("SEARCH violates=1 what=AnalyserModel::areEquivalentVariables(v%d, v%d) is %s but the variables are %s (%d variables, equivalences added: %s; network %ld)\n", p.first, p.second,
                               got ? "true" : "false", want ? "linked (or the same)" : "not linked", nv, edges.c_str(), t);
                        return 0;
                    }
                }
        }
    }
    printf("SEARCH violates=0 networks=%ld\n", n);
    return 0;
}

int main(int argc, char **argv)
{
    if (argc >= 2 && !strcmp(argv[1], "search")) return searchMode(argc, argv);
    if (argc < 5) {
        fprintf(stderr, "usage: a b c d\n");
        return 2;
    }
    uintptr_t a = strtoull(argv[1], nullptr, 0), b = strtoull(argv[2], nullptr, 0), c = strtoull(argv[3], nullptr, 0), d = strtoull(argv[4], nullptr, 0);
    auto k1 = libcellml::verifEquivalentVariablesCacheKey(a, b);
    auto k2 = libcellml::verifEquivalentVariablesCacheKey(c, d);
    bool samePair = (a == c && b == d) || (a == d && b == c);
    bool sameKey = k1 == k2;
    printf("REPLAY a=%#lx b=%#lx c=%#lx d=%#lx same_pair=%d same_key=%d violates=%d\n", a, b, c, d, samePair, sameKey, samePair != sameKey);
    return 0;
}
