// C09 native replay: random histories of object-model API calls on the real library over a small
// universe (structurally identical siblings, moves between parents, self/ancestor insertion,
// replacement by owned entities, null / foreign / out-of-range arguments); after every call the
// ownership invariants are checked by an independent traversal.  Prints the first failing history.
#include <cstdio>
#include <cstdlib>
#include <cstring>
#include <map>
#include <random>
#include <set>
#include <string>
#include <vector>

#include "libcellml/component.h"
#include "libcellml/model.h"
#include "libcellml/reset.h"
#include "libcellml/units.h"
#include "libcellml/variable.h"

using namespace libcellml;
static std::mt19937 rng;

struct World
{
    std::vector<ModelPtr> models;
    std::vector<ComponentPtr> comps;
    std::vector<VariablePtr> vars;
    std::vector<ResetPtr> resets;
    std::vector<UnitsPtr> units;
};

static std::string why;

static bool checkContainer(const ComponentEntityPtr &ce, std::map<Entity *, Entity *> &owner)
{
    for (size_t i = 0; i < ce->componentCount(); ++i) {
        auto c = ce->component(i);
        if (!c) { why = "null child component listed"; return false; }
        if (c->parent() != ce) { why = "listed child component does not report its container as parent"; return false; }
        if (owner.count(c.get())) { why = "component listed twice or by two containers"; return false; }
        owner[c.get()] = ce.get();
    }
    return true;
}

static bool invariants(World &w)
{
    std::map<Entity *, Entity *> owner;
    for (auto &m : w.models) {
        if (!checkContainer(m, owner)) return false;
        for (size_t i = 0; i < m->unitsCount(); ++i) {
            auto u = m->units(i);
            if (!u) { why = "null units listed"; return false; }
            if (u->parent() != m) { why = "listed units does not report its model as parent"; return false; }
            if (owner.count(u.get())) { why = "units listed twice or by two models"; return false; }
            owner[u.get()] = m.get();
        }
    }
    for (auto &c : w.comps) {
        if (!checkContainer(c, owner)) return false;
        for (size_t i = 0; i < c->variableCount(); ++i) {
            auto v = c->variable(i);
            if (!v) { why = "null variable listed"; return false; }
            if (v->parent() != c) { why = "listed variable does not report its component as parent"; return false; }
            if (owner.count(v.get())) { why = "variable listed twice or by two components"; return false; }
            owner[v.get()] = c.get();
        }
        for (size_t i = 0; i < c->resetCount(); ++i) {
            auto r = c->reset(i);
            if (!r) { why = "null reset listed"; return false; }
            if (r->parent() != c) { why = "listed reset does not report its component as parent"; return false; }
            if (owner.count(r.get())) { why = "reset listed twice or by two components"; return false; }
            owner[r.get()] = c.get();
        }
        // acyclic: walking up ends
        ParentedEntityPtr p = c;
        int steps = 0;
        while (p && steps < 64) { p = p->parent(); ++steps; }
        if (steps >= 64) { why = "cycle in the component hierarchy"; return false; }
    }
    // an entity that reports a parent must be listed by it
    for (auto &v : w.vars) {
        auto p = std::dynamic_pointer_cast<Component>(v->parent());
        if (v->parent() && (!p || !owner.count(v.get()) || owner[v.get()] != p.get())) { why = "variable reports a parent that does not list it"; return false; }
        for (size_t i = 0; i < v->equivalentVariableCount(); ++i) {
            auto e = v->equivalentVariable(i);
            if (!e) { why = "equivalentVariable(i) is null below the count"; return false; }
            if (!e->hasEquivalentVariable(v)) { why = "variable equivalence is not symmetric"; return false; }
        }
    }
    for (auto &c : w.comps) {
        auto p = c->parent();
        if (p && (!owner.count(c.get()) || owner[c.get()] != p.get())) { why = "component reports a parent that does not list it"; return false; }
    }
    for (auto &u : w.units) {
        auto p = u->parent();
        if (p && (!owner.count(u.get()) || owner[u.get()] != p.get())) { why = "units reports a parent that does not list it"; return false; }
    }
    for (auto &r : w.resets) {
        auto p = r->parent();
        if (p && (!owner.count(r.get()) || owner[r.get()] != p.get())) { why = "reset reports a parent that does not list it"; return false; }
    }
    return true;
}

template<class T>
static T pickOrNull(std::vector<T> &v)
{
    if (rng() % 8 == 0) return nullptr;
    return v[rng() % v.size()];
}

int main(int argc, char **argv)
{
    if (argc < 2 || strcmp(argv[1], "fuzz")) return 2;
    unsigned seed = argc > 2 ? unsigned(atol(argv[2])) : 0;
    long n = argc > 3 ? atol(argv[3]) : 3000;
    rng.seed(seed);
    for (long t = 0; t < n; ++t) {
        World w;
        for (int i = 0; i < 2; ++i) w.models.push_back(Model::create("m"));
        for (int i = 0; i < 5; ++i) w.comps.push_back(Component::create(i < 3 ? "c" : "d"));   // identical siblings
        for (int i = 0; i < 5; ++i) w.vars.push_back(Variable::create(i < 3 ? "v" : "w"));
        for (int i = 0; i < 3; ++i) w.resets.push_back(Reset::create());
        for (int i = 0; i < 4; ++i) w.units.push_back(Units::create(i < 3 ? "u" : "k"));
        std::string hist;
        int len = 4 + int(rng() % 12);
        for (int s = 0; s < len; ++s) {
            unsigned op = rng() % 24;
            auto m = w.models[rng() % w.models.size()];
            auto c = w.comps[rng() % w.comps.size()];
            ComponentEntityPtr ce = (rng() % 2) ? ComponentEntityPtr(m) : ComponentEntityPtr(c);
            size_t idx = rng() % 4;
            hist += std::to_string(op) + ",";
            switch (op) {
            // adding an entity to the container that already holds it is outside the property's claim (existing tests pin that it
            // is then listed a second time): such calls are skipped
            case 0: { auto x = pickOrNull(w.comps); if (x == nullptr || x->parent() != ce) ce->addComponent(x); break; }
            case 1: ce->removeComponent(idx); break;
            case 2: ce->removeComponent(pickOrNull(w.comps), rng() % 2); break;
            case 3: ce->removeComponent(rng() % 2 ? "c" : "zzz", rng() % 2); break;
            case 4: ce->takeComponent(idx); break;
            // (a replacement that the container already holds is the same left-out case)
            case 5: { auto x = pickOrNull(w.comps); if (x == nullptr || x->parent() != ce) ce->replaceComponent(idx, x); break; }
            case 6: { auto o = pickOrNull(w.comps); auto x = pickOrNull(w.comps); if (x == nullptr || x->parent() != ce) ce->replaceComponent(o, x, false); break; }
            case 7: { auto x = pickOrNull(w.comps); if (x == nullptr || x->parent() != ce) ce->replaceComponent(rng() % 2 ? "d" : "zzz", x, false); break; }
            case 8: { auto x = pickOrNull(w.vars); if (x == nullptr || x->parent() != c) c->addVariable(x); break; }
            case 9: c->removeVariable(idx); break;
            case 10: c->removeVariable(pickOrNull(w.vars)); break;
            case 11: c->removeVariable(rng() % 2 ? "v" : "zzz"); break;
            case 12: c->takeVariable(idx); break;
            case 13: { auto x = pickOrNull(w.resets); if (x == nullptr || x->parent() != c) c->addReset(x); break; }
            case 14: c->removeReset(pickOrNull(w.resets)); break;
            case 15: c->takeReset(idx); break;
            case 16: { auto x = pickOrNull(w.units); if (x == nullptr || x->parent() != m) m->addUnits(x); break; }
            case 17: m->removeUnits(pickOrNull(w.units)); break;
            case 18: { auto x = pickOrNull(w.units); if (x == nullptr || x->parent() != m) m->replaceUnits(idx, x); break; }
            case 19: { auto o = pickOrNull(w.units); auto x = pickOrNull(w.units); if (x == nullptr || x->parent() != m) m->replaceUnits(o, x); break; }
            case 20: m->takeUnits(idx); break;
            case 21: Variable::addEquivalence(pickOrNull(w.vars), pickOrNull(w.vars), "map", "con"); break;
            case 22: Variable::removeEquivalence(pickOrNull(w.vars), pickOrNull(w.vars)); break;
            default: if (rng() % 2) c->removeAllVariables(); else ce->removeAllComponents(); break;
            }
            if (!invariants(w)) {
                printf("FUZZ violates=1 history=%s why=%s\n", hist.c_str(), why.c_str());
                return 0;
            }
        }
    }
    printf("FUZZ violates=0 histories=%ld\n", n);
    return 0;
}
