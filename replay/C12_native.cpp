// C12 native scenarios on the real library:
//  KEEPBLANKS: parse a document whose MathML contains insignificant whitespace, print any model,
//              parse the same document again: the two parsed models must be equal.
//  REUSE:      validate / analyse an invalid model and then a valid one on the SAME instance: the
//              second result must be what a fresh instance gives.
#include <cstdio>
#include <string>

#include "libcellml/analyser.h"
#include "libcellml/analysermodel.h"
#include "libcellml/component.h"
#include "libcellml/issue.h"
#include "libcellml/model.h"
#include "libcellml/parser.h"
#include "libcellml/printer.h"
#include "libcellml/validator.h"
#include "libcellml/variable.h"

using namespace libcellml;

static const char *DOC =
    "<?xml version=\"1.0\" encoding=\"UTF-8\"?>\n"
    "<model xmlns=\"http://www.cellml.org/cellml/2.0#\" name=\"m\">\n"
    "  <component name=\"c\">\n"
    "    <variable name=\"x\" units=\"dimensionless\"/>\n"
    "    <math xmlns=\"http://www.w3.org/1998/Math/MathML\">\n"
    "      <apply>\n        <eq/>\n        <ci>x</ci>\n        <cn xmlns:cellml=\"http://www.cellml.org/cellml/2.0#\" cellml:units=\"dimensionless\">1</cn>\n      </apply>\n"
    "    </math>\n"
    "  </component>\n"
    "</model>\n";

static const char *UNDER =
    "<?xml version=\"1.0\" encoding=\"UTF-8\"?>\n"
    "<model xmlns=\"http://www.cellml.org/cellml/2.0#\" name=\"u\">\n"
    "  <component name=\"c\">\n"
    "    <variable name=\"a\" units=\"dimensionless\"/>\n"
    "    <variable name=\"b\" units=\"dimensionless\"/>\n"
    "    <math xmlns=\"http://www.w3.org/1998/Math/MathML\"><apply><eq/><ci>a</ci><ci>b</ci></apply></math>\n"
    "  </component>\n"
    "</model>\n";

int main()
{
    auto parser = Parser::create();
    auto m1 = parser->parseModel(DOC);
    std::string math1 = m1->component(0)->math();
    auto printer = Printer::create();
    printer->printModel(Model::create("other"));
    auto m2 = Parser::create()->parseModel(DOC);
    std::string math2 = m2->component(0)->math();
    bool leak = math1 != math2 || !m1->equals(m2);
    printf("KEEPBLANKS leak=%d the same document parses to %s math after a print (%zu vs %zu bytes)\n", leak ? 1 : 0, leak ? "DIFFERENT" : "the same", math1.size(), math2.size());

    auto good = Parser::create()->parseModel(DOC);
    auto under = Parser::create()->parseModel(UNDER);
    auto a1 = Analyser::create();
    a1->analyseModel(under);
    a1->analyseModel(good);
    auto a2 = Analyser::create();
    a2->analyseModel(good);
    bool differs = a1->issueCount() != a2->issueCount() || a1->model()->type() != a2->model()->type() || a1->model()->variableCount() != a2->model()->variableCount();
    auto v1 = Validator::create();
    v1->validateModel(under);
    v1->validateModel(good);
    auto v2 = Validator::create();
    v2->validateModel(good);
    differs = differs || v1->issueCount() != v2->issueCount();
    printf("REUSE violates=%d analyser issues %zu vs %zu, validator issues %zu vs %zu\n", differs ? 1 : 0, a1->issueCount(), a2->issueCount(), v1->issueCount(), v2->issueCount());
    return 0;
}
