// C19 native replay: random small encapsulation hierarchies with equivalences between variables of
// arbitrary components; Model::fixVariableInterfaces() is compared with an independent oracle:
//  - returns false exactly when some equivalence joins components that are neither siblings nor
//    parent and child (or a parentless variable is involved);
//  - when it returns true, the validator raises no issue about interfaces / unreachable equivalences;
//  - variables whose interface already sufficed are unchanged.
#include <cstdio>
#include <cstdlib>
#include <cstring>
#include <random>
#include <string>
#include <vector>

#include "libcellml/component.h"
#include "libcellml/issue.h"
#include "libcellml/model.h"
#include "libcellml/units.h"
#include "libcellml/validator.h"
#include "libcellml/variable.h"

using namespace libcellml;
static std::mt19937 rng;

static bool reachable(const ComponentPtr &a, const ComponentPtr &b)
{
    if (!a || !b) return false;
    return a->parent() == b->parent() || a->parent() == b || b->parent() == a;
}

int main(int argc, char **argv)
{
    if (argc < 2 || strcmp(argv[1], "fuzz")) return 2;
    rng.seed(argc > 2 ? unsigned(atol(argv[2])) : 0);
    long n = argc > 3 ? atol(argv[3]) : 3000;
    for (long t = 0; t < n; ++t) {
        auto m = Model::create("m");
        std::vector<ComponentPtr> comps;
        int nc = 3 + rng() % 4;
        for (int i = 0; i < nc; ++i) {
            auto c = Component::create("c" + std::to_string(i));
            if (i == 0 || rng() % 3 == 0) m->addComponent(c);
            else comps[rng() % comps.size()]->addComponent(c);
            comps.push_back(c);
        }
        std::vector<VariablePtr> vars;
        const char *ifs[] = {"", "public", "private", "public_and_private", "none"};
        for (auto &c : comps) {
            int nv = 1 + rng() % 2;
            for (int j = 0; j < nv; ++j) {
                auto v = Variable::create("v" + std::to_string(vars.size()));
                v->setUnits("second");
                v->setInterfaceType(ifs[rng() % 5]);
                c->addVariable(v);
                vars.push_back(v);
            }
        }
        int ne = 1 + rng() % 5;
        for (int e = 0; e < ne; ++e) {
            auto a = vars[rng() % vars.size()], b = vars[rng() % vars.size()];
            if (a->parent() != b->parent()) Variable::addEquivalence(a, b);
        }
        bool anyBad = false;
        std::vector<std::string> before;
        std::vector<bool> sufficed;
        for (auto &v : vars) {
            bool pub = false, priv = false, bad = false;
            auto A = std::dynamic_pointer_cast<Component>(v->parent());
            for (size_t i = 0; i < v->equivalentVariableCount(); ++i) {
                auto C = std::dynamic_pointer_cast<Component>(v->equivalentVariable(i)->parent());
                if (!C || !reachable(A, C)) bad = true;
                else if (C->parent() == A) priv = true;
                else pub = true;
            }
            if (bad && v->equivalentVariableCount()) anyBad = true;
            std::string s = v->interfaceType();
            before.push_back(s);
            std::string need = pub && priv ? "public_and_private" : pub ? "public" : priv ? "private" : "none";
            sufficed.push_back(bad || v->equivalentVariableCount() == 0 || s == "public_and_private" || s == need);
        }
        bool ok = m->fixVariableInterfaces();
        if (ok == anyBad) {
            printf("FUZZ violates=1 what=fixVariableInterfaces() returned %d but an unreachable equivalence %s (model %ld)\n", ok, anyBad ? "exists" : "does not exist", t);
            return 0;
        }
        for (size_t i = 0; i < vars.size(); ++i)
            if (sufficed[i] && vars[i]->interfaceType() != before[i]) {
                printf("FUZZ violates=1 what=a variable whose interface already sufficed was changed from '%s' to '%s' (model %ld)\n", before[i].c_str(), vars[i]->interfaceType().c_str(), t);
                return 0;
            }
        if (ok) {
            auto val = Validator::create();
            val->validateModel(m);
            for (size_t i = 0; i < val->issueCount(); ++i) {
                auto r = val->issue(i)->referenceRule();
                if (r == Issue::ReferenceRule::MAP_VARIABLES_ELEMENT) {
                    printf("FUZZ violates=1 what=fixVariableInterfaces() returned true but the validator reports: %s (model %ld)\n", val->issue(i)->description().c_str(), t);
                    return 0;
                }
            }
        }
    }
    printf("FUZZ violates=0 models=%ld\n", n);
    return 0;
}
