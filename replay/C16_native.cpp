// C16 native side: (1) lowering conformance - the lowered C (what CBMC verifies) against the
// real C++ functions of /repo (what runs), on enumerated and seeded-random strings;
// (2) counterexample replay - one function, one string, against the real code and the spec.
#include <cstdio>
#include <cstdlib>
#include <cstring>
#include <random>
#include <stdexcept>
#include <string>
#include <vector>

#include "utilities.h"

namespace libcellml {
// defined (non-static) in utilities.cpp but not declared in utilities.h
bool isCellMLExponent(const std::string &candidate);
bool isEuropeanNumericCharacter(char c);
} // namespace libcellml

extern "C" int c16_lowered(const char *fn, const char *s, size_t n, int *threw, double *dout, int *iout);
extern "C" int c16_spec(const char *fn, const char *s, size_t n, int *ival);

struct Real
{
    int r = -1;
    int threw = 0; // 0 none, 1 invalid_argument, 2 out_of_range, 3 other
    double d = 0;
    int i = 0;
    std::string what;
};

static Real callReal(const std::string &fn, const std::string &s)
{
    Real R;
    try {
        if (fn == "isNonNegativeCellMLInteger") R.r = libcellml::isNonNegativeCellMLInteger(s);
        else if (fn == "isCellMLInteger") R.r = libcellml::isCellMLInteger(s);
        else if (fn == "isCellMLExponent") R.r = libcellml::isCellMLExponent(s);
        else if (fn == "isCellMLBasicReal") R.r = libcellml::isCellMLBasicReal(s);
        else if (fn == "isCellMLReal") R.r = libcellml::isCellMLReal(s);
        else if (fn == "canConvertToBasicDouble") R.r = libcellml::canConvertToBasicDouble(s);
        else if (fn == "isStandardPrefixName") R.r = libcellml::isStandardPrefixName(s);
        else if (fn == "convertToDouble") R.r = libcellml::convertToDouble(s, R.d);
        else if (fn == "convertToInt") R.r = libcellml::convertToInt(s, R.i);
        else if (fn == "convertPrefixToInt") { bool ok = false; R.i = libcellml::convertPrefixToInt(s, &ok); R.r = ok; }
        else if (fn == "isEuropeanNumericCharacter") R.r = libcellml::isEuropeanNumericCharacter(s.empty() ? char(0) : s[0]);
        else { R.threw = 3; R.what = "unknown function"; }
    } catch (const std::invalid_argument &e) {
        R.threw = 1; R.what = e.what();
    } catch (const std::out_of_range &e) {
        R.threw = 2; R.what = e.what();
    } catch (...) {
        R.threw = 3;
    }
    return R;
}

static const char *FNS[] = {"isNonNegativeCellMLInteger", "isCellMLInteger", "isCellMLExponent", "isCellMLBasicReal",
                            "isCellMLReal", "canConvertToBasicDouble", "isStandardPrefixName", "convertToDouble",
                            "convertToInt", "convertPrefixToInt", "isEuropeanNumericCharacter"};

static std::string hex(const std::string &s)
{
    static const char *H = "0123456789abcdef";
    std::string o;
    for (unsigned char c : s) { o += H[c >> 4]; o += H[c & 15]; }
    return o;
}
static std::string unhex(const std::string &h)
{
    std::string o;
    for (size_t i = 0; i + 1 < h.size(); i += 2) o += char(std::stoi(h.substr(i, 2), nullptr, 16));
    return o;
}

static long disagreements = 0, compared = 0;

static void conformOne(const char *fn, const std::string &s)
{
    int threw = 0, iout = 0;
    double dout = 0;
    int lr = c16_lowered(fn, s.data(), s.size(), &threw, &dout, &iout);
    if (threw == 2) return; // beyond the model's capacity: nothing to compare
    Real R = callReal(fn, s);
    ++compared;
    bool same = (threw != 0) == (R.threw != 0);
    if (same && !threw) {
        same = lr == R.r;
        if (same && !strcmp(fn, "convertToInt") && lr == 1) same = iout == R.i;
        if (same && !strcmp(fn, "convertPrefixToInt") && lr == 1) same = iout == R.i;
        if (same && !strcmp(fn, "convertToDouble") && lr == 1) same = memcmp(&dout, &R.d, sizeof(double)) == 0;
    }
    if (!same) {
        if (++disagreements <= 10)
            printf("DISAGREE fn=%s s=%s lowered=%d/%d real=%d/%d\n", fn, hex(s).c_str(), lr, threw, R.r, R.threw);
    }
}

int main(int argc, char **argv)
{
    if (argc >= 2 && !strcmp(argv[1], "conform")) {
        unsigned seed = argc > 2 ? unsigned(atol(argv[2])) : 0;
        int maxlen = argc > 3 ? atoi(argv[3]) : 4;
        const std::string alpha = "019+-.eE a";
        std::vector<std::string> strs{""};
        size_t from = 0;
        for (int len = 1; len <= maxlen; ++len) {
            size_t to = strs.size();
            for (size_t k = from; k < to; ++k)
                for (char c : alpha) strs.push_back(strs[k] + c);
            from = to;
        }
        std::mt19937 rng(seed);
        const std::string alpha2 = "0123456789+-.eE \tainfxy";
        for (int k = 0; k < 20000; ++k) {
            std::string s;
            int len = 5 + int(rng() % 6);
            for (int j = 0; j < len; ++j) s += (rng() % 8 == 0) ? char(rng() % 256) : alpha2[rng() % alpha2.size()];
            strs.push_back(s);
        }
        for (const char *p : {"yotta", "zetta", "exa", "peta", "tera", "giga", "mega", "kilo", "hecto", "deca", "deci", "centi",
                              "milli", "micro", "nano", "pico", "femto", "atto", "zepto", "yocto", "kil", "kilos", "2147483647",
                              "2147483648", "-2147483648", "-2147483649", "1e400", "1e-400", "99999999999"})
            strs.push_back(p);
        for (const char *fn : FNS)
            for (const auto &s : strs) conformOne(fn, s);
        printf("CONFORM compared=%ld disagreements=%ld strings=%zu\n", compared, disagreements, strs.size());
        return disagreements ? 1 : 0;
    }
    if (argc >= 4 && !strcmp(argv[1], "replay")) {
        std::string fn = argv[2], s = unhex(argv[3]);
        Real R = callReal(fn, s);
        int ival = 0;
        int sp = c16_spec(fn.c_str(), s.data(), s.size(), &ival);
        bool violates = false;
        std::string why;
        if (R.threw == 1 || R.threw == 3) { violates = true; why = "exception escapes: " + R.what; }
        else if (R.threw == 2) { violates = true; why = "std::out_of_range escapes: " + R.what; }
        else if (sp >= 0 && R.r != sp) { violates = true; why = "result differs from the grammar of the property statement"; }
        else if (sp == 1 && (fn == "convertToInt" || fn == "convertPrefixToInt") && R.i != ival) { violates = true; why = "converted value differs"; }
        printf("REPLAY fn=%s s=%s real_result=%d real_threw=%d spec=%d violates=%d why=%s\n", fn.c_str(), hex(s).c_str(), R.r, R.threw, sp,
               violates ? 1 : 0, why.c_str());
        return 0;
    }
    fprintf(stderr, "usage: conform [seed] [maxlen] | replay <fn> <hex>\n");
    return 2;
}
