// C13 native replay: random small models with arbitrary pre-existing ids (some shaped like automatic
// ids), handed to an Annotator, then EDITED (ids set behind the annotator's back), then
// assignAllIds() / assignIds(type) / assignId(item); afterwards every id in the model must be
// unique among the newly assigned ones, ids that existed before must be unchanged (assignAllIds,
// assignIds), and ids()/itemCount() must agree with an independent traversal.
#include <cstdio>
#include <cstdlib>
#include <cstring>
#include <map>
#include <random>
#include <algorithm>
#include <set>
#include <string>
#include <vector>

#include "libcellml/annotator.h"
#include "libcellml/component.h"
#include "libcellml/importsource.h"
#include "libcellml/printer.h"
#include "libcellml/reset.h"
#include "libcellml/model.h"
#include "libcellml/units.h"
#include "libcellml/variable.h"

using namespace libcellml;
static std::mt19937 rng;

static void collect(const ModelPtr &m, std::multiset<std::string> &ids)
{
    if (!m->id().empty()) ids.insert(m->id());
    if (!m->encapsulationId().empty()) ids.insert(m->encapsulationId());
    for (size_t i = 0; i < m->unitsCount(); ++i) {
        auto u = m->units(i);
        if (!u->id().empty()) ids.insert(u->id());
        for (size_t j = 0; j < u->unitCount(); ++j)
            if (!u->unitId(j).empty()) ids.insert(u->unitId(j));
        if (u->isImport() && !u->importSource()->id().empty()) ids.insert(u->importSource()->id());
    }
    std::vector<ComponentPtr> st;
    std::set<std::pair<std::string, std::pair<const void *, const void *>>> conns;
    for (size_t i = 0; i < m->componentCount(); ++i) st.push_back(m->component(i));
    while (!st.empty()) {
        auto c = st.back();
        st.pop_back();
        if (!c->id().empty()) ids.insert(c->id());
        if (!c->encapsulationId().empty()) ids.insert(c->encapsulationId());
        for (size_t i = 0; i < c->variableCount(); ++i) {
            auto v = c->variable(i);
            if (!v->id().empty()) ids.insert(v->id());
            for (size_t e = 0; e < v->equivalentVariableCount(); ++e) {
                auto w = v->equivalentVariable(e);
                if (!w) continue;
                if (v.get() < w.get()) { // each unordered pair once
                    auto mid = Variable::equivalenceMappingId(v, w);
                    if (!mid.empty()) ids.insert(mid);
                }
                auto cid = Variable::equivalenceConnectionId(v, w);
                auto pa = v->parent().get(), pb = w->parent().get();
                if (!cid.empty()) conns.insert({cid, {std::min(pa, pb), std::max(pa, pb)}});
            }
        }
        for (size_t i = 0; i < c->componentCount(); ++i) st.push_back(c->component(i));
    }
    for (auto &k : conns) ids.insert(k.first); // a connection id once per pair of components
}

// Printer::printModel(model, true): every id="..." of the printed document is unique when the model's own ids are,
// and the model itself is not modified.  Models include imported components with locally defined children, resets,
// units with import sources and unit children, equivalences with mapping / connection ids.
static int printIds(unsigned seed, long n)
{
    rng.seed(seed);
    auto printer = Printer::create();
    for (long t = 0; t < n; ++t) {
        int next = 0xb4da55;
        auto autoId = [&]() { char b[16]; snprintf(b, sizeof(b), "%x", next++); return std::string(b); };
        auto maybe = [&]() { return rng() % 3 == 0; };
        auto m = Model::create("m");
        if (maybe()) m->setId(autoId());
        if (maybe()) m->setEncapsulationId(autoId());
        auto u = Units::create("u");
        u->addUnit("second");
        if (maybe()) u->setUnitId(0, autoId());
        if (maybe()) u->setId(autoId());
        if (maybe()) { auto is = ImportSource::create(); is->setUrl("x.cellml"); if (maybe()) is->setId(autoId()); u->setImportSource(is); u->setImportReference("r"); }
        m->addUnits(u);
        std::vector<ComponentPtr> comps;
        std::vector<VariablePtr> vars;
        int nc = 1 + rng() % 4;
        for (int i = 0; i < nc; ++i) {
            auto c = Component::create("c" + std::to_string(i));
            if (maybe()) c->setId(autoId());
            if (maybe()) c->setEncapsulationId(autoId());
            if (maybe()) { auto is = ImportSource::create(); is->setUrl("y.cellml"); if (maybe()) is->setId(autoId()); c->setImportSource(is); c->setImportReference("cr"); }
            if (i == 0 || rng() % 2) m->addComponent(c); else comps[rng() % comps.size()]->addComponent(c);
            comps.push_back(c);
            int nv = rng() % 3;
            for (int j = 0; j < nv; ++j) {
                auto v = Variable::create("v" + std::to_string(vars.size()));
                v->setUnits("second");
                if (maybe()) v->setId(autoId());
                c->addVariable(v);
                vars.push_back(v);
            }
            if (c->variableCount() && maybe()) {
                auto r = Reset::create();
                r->setVariable(c->variable(0));
                r->setTestVariable(c->variable(0));
                r->setOrder(1);
                if (maybe()) r->setId(autoId());
                if (maybe()) r->setTestValueId(autoId());
                if (maybe()) r->setResetValueId(autoId());
                c->addReset(r);
            }
        }
        for (int e = 0; e < 2 && vars.size() > 1; ++e) {
            auto a = vars[rng() % vars.size()], b = vars[rng() % vars.size()];
            if (a != b && a->parent() != b->parent()) {
                Variable::addEquivalence(a, b);
                if (maybe()) Variable::setEquivalenceMappingId(a, b, autoId());
                if (maybe()) Variable::setEquivalenceConnectionId(a, b, autoId());
            }
        }
        std::string plainBefore = printer->printModel(m, false);
        std::string out = printer->printModel(m, true);
        if (printer->printModel(m, false) != plainBefore) {
            printf("PRINTIDS violates=1 what=printModel(model, true) modified the model (model %ld)\n", t);
            return 0;
        }
        std::multiset<std::string> ids;
        size_t pos = 0;
        while ((pos = out.find(" id=\"", pos)) != std::string::npos) {
            size_t e = out.find('"', pos + 5);
            ids.insert(out.substr(pos + 5, e - pos - 5));
            pos = e;
        }
        for (auto &i : ids)
            if (ids.count(i) > 1) {
                printf("PRINTIDS violates=1 what=printModel(model, true) wrote the id '%s' %zu times although every id of the model was unique (model %ld)\n", i.c_str(), ids.count(i), t);
                return 0;
            }
    }
    printf("PRINTIDS violates=0 models=%ld\n", n);
    return 0;
}

int main(int argc, char **argv)
{
    if (argc >= 2 && !strcmp(argv[1], "printids")) return printIds(argc > 2 ? unsigned(atol(argv[2])) : 0, argc > 3 ? atol(argv[3]) : 1500);
    if (argc < 2 || strcmp(argv[1], "fuzz")) return 2;
    rng.seed(argc > 2 ? unsigned(atol(argv[2])) : 0);
    long n = argc > 3 ? atol(argv[3]) : 1500;
    const char *autoIds[] = {"b4da55", "b4da56", "b4da57", "b4da58", "b4da59", "b4da5a"};
    for (long t = 0; t < n; ++t) {
        auto m = Model::create("m");
        std::vector<ComponentPtr> comps;
        std::vector<VariablePtr> vars;
        int nc = 1 + rng() % 3;
        for (int i = 0; i < nc; ++i) {
            auto c = Component::create("c" + std::to_string(i));
            if (i == 0 || rng() % 2) m->addComponent(c); else comps[rng() % comps.size()]->addComponent(c);
            comps.push_back(c);
            int nv = rng() % 3;
            for (int j = 0; j < nv; ++j) {
                auto v = Variable::create("v" + std::to_string(vars.size()));
                c->addVariable(v);
                vars.push_back(v);
            }
        }
        std::vector<std::pair<VariablePtr, VariablePtr>> eqs;
        for (int k = 0; k < 2 && vars.size() >= 2; ++k) {
            auto x = vars[rng() % vars.size()], y = vars[rng() % vars.size()];
            if (x != y && x->parent() != y->parent() && Variable::addEquivalence(x, y)) eqs.push_back({x, y});
        }
        auto u = Units::create("u");
        u->addUnit("second");
        // sometimes the units is imported and still carries a unit child (whose id counts as present in the model)
        if (rng() % 3 == 0) { auto is = ImportSource::create(); is->setUrl("x.cellml"); u->setImportSource(is); u->setImportReference("r"); }
        m->addUnits(u);
        if (rng() % 3 == 0) comps[0]->setId("manual1");
        auto a = Annotator::create();
        a->setModel(m);
        if (rng() % 2) a->ids();     // a lookup in between (keeps the index fresh) - or not
        // edit behind the annotator's back: ids shaped like automatic ones
        int ne = rng() % 3;
        for (int e = 0; e < ne; ++e) {
            const char *id = autoIds[rng() % 6];
            if (!eqs.empty() && rng() % 4 == 0) { auto &q = eqs[rng() % eqs.size()]; Variable::setEquivalenceMappingId(q.first, q.second, id); }
            else if (rng() % 4 == 0) u->setUnitId(0, id);
            else if (rng() % 2 && !vars.empty()) vars[rng() % vars.size()]->setId(id); else comps[rng() % comps.size()]->setId(id);
        }
        std::multiset<std::string> before;
        collect(m, before);
        int op = rng() % 4;
        std::string replaced; // op 3: the identifier that assignId() replaces on an item that already has one
        if (op == 3) {
            int k = rng() % 4;
            if (k == 0 && !vars.empty()) { auto v = vars[rng() % vars.size()]; replaced = v->id(); a->assignId(v); }
            else if (k == 1) { auto c = comps[rng() % comps.size()]; replaced = c->id(); a->assignId(c); }
            else if (k == 2) { if (rng() % 2) u->setId("units_id"); if (rng() % 2) a->ids(); replaced = u->id(); a->assignId(u); }
            else { if (rng() % 2) u->setUnitId(0, "unit_id"); if (rng() % 2) a->ids(); replaced = u->unitId(0); a->assignId(u, 0); }
            before.clear();
            collect(m, before);     // compare with the state after the replacement: nothing ELSE may change (checked below by the lookups)
        }
        else if (op == 0) a->assignAllIds();
        else if (op == 1) a->assignIds(rng() % 2 ? CellmlElementType::VARIABLE : CellmlElementType::COMPONENT);
        else if (!vars.empty()) { auto v = vars[rng() % vars.size()]; if (v->id().empty()) a->assignId(v); }
        std::multiset<std::string> after;
        collect(m, after);
        // every id that existed before is still there
        for (auto &s : before)
            if (after.count(s) < before.count(s)) {
                printf("FUZZ violates=1 what=an identifier that existed before ('%s') was changed or removed by operation %d (model %ld)\n", s.c_str(), op, t);
                return 0;
            }
        // every newly assigned id is unique in the model
        for (auto &s : after)
            if (after.count(s) > before.count(s) && after.count(s) > 1) {
                printf("FUZZ violates=1 what=newly assigned identifier '%s' duplicates an identifier present in the model (operation %d, %d edit(s) after setModel, model %ld)\n", s.c_str(), op, ne, t);
                return 0;
            }
        // lookups agree with a traversal
        std::set<std::string> distinct(after.begin(), after.end());
        auto ids = a->ids();
        if (std::set<std::string>(ids.begin(), ids.end()) != distinct) {
            printf("FUZZ violates=1 what=ids() disagrees with a traversal of the model: %zu vs %zu distinct ids (operation %d, model %ld)\n", ids.size(), distinct.size(), op, t);
            return 0;
        }
        for (auto &s : distinct)
            if (a->itemCount(s) != after.count(s)) {
                printf("FUZZ violates=1 what=itemCount('%s') is %zu but the model carries it %zu time(s) (operation %d, model %ld)\n", s.c_str(), a->itemCount(s), after.count(s), op, t);
                return 0;
            }
    }
    printf("FUZZ violates=0 models=%ld\n", n);
    return 0;
}
